
(** val negb : bool -> bool **)

let negb = function
| true -> false
| false -> true

type nat =
| O
| S of nat

(** val fst : ('a1 * 'a2) -> 'a1 **)

let fst = function
| (x, _) -> x

(** val snd : ('a1 * 'a2) -> 'a2 **)

let snd = function
| (_, y) -> y

(** val app : 'a1 list -> 'a1 list -> 'a1 list **)

let rec app l m =
  match l with
  | [] -> m
  | a :: l1 -> a :: (app l1 m)

type comparison =
| Eq
| Lt
| Gt

(** val rev : 'a1 list -> 'a1 list **)

let rec rev = function
| [] -> []
| x :: l' -> app (rev l') (x :: [])

(** val map : ('a1 -> 'a2) -> 'a1 list -> 'a2 list **)

let rec map f = function
| [] -> []
| a :: t -> (f a) :: (map f t)

(** val flat_map : ('a1 -> 'a2 list) -> 'a1 list -> 'a2 list **)

let rec flat_map f = function
| [] -> []
| x :: t -> app (f x) (flat_map f t)

(** val fold_left : ('a1 -> 'a2 -> 'a1) -> 'a2 list -> 'a1 -> 'a1 **)

let rec fold_left f l a0 =
  match l with
  | [] -> a0
  | b0 :: t -> fold_left f t (f a0 b0)

(** val fold_right : ('a2 -> 'a1 -> 'a1) -> 'a1 -> 'a2 list -> 'a1 **)

let rec fold_right f a0 = function
| [] -> a0
| b0 :: t -> f b0 (fold_right f a0 t)

(** val existsb : ('a1 -> bool) -> 'a1 list -> bool **)

let rec existsb f = function
| [] -> false
| a :: l0 -> (||) (f a) (existsb f l0)

(** val forallb : ('a1 -> bool) -> 'a1 list -> bool **)

let rec forallb f = function
| [] -> true
| a :: l0 -> (&&) (f a) (forallb f l0)

(** val find : ('a1 -> bool) -> 'a1 list -> 'a1 option **)

let rec find f = function
| [] -> None
| x :: tl -> if f x then Some x else find f tl

type positive =
| XI of positive
| XO of positive
| XH

type n =
| N0
| Npos of positive

module Pos =
 struct
  type mask =
  | IsNul
  | IsPos of positive
  | IsNeg
 end

module Coq_Pos =
 struct
  (** val succ : positive -> positive **)

  let rec succ = function
  | XI p -> XO (succ p)
  | XO p -> XI p
  | XH -> XO XH

  (** val add : positive -> positive -> positive **)

  let rec add x y =
    match x with
    | XI p ->
      (match y with
       | XI q -> XO (add_carry p q)
       | XO q -> XI (add p q)
       | XH -> XO (succ p))
    | XO p ->
      (match y with
       | XI q -> XI (add p q)
       | XO q -> XO (add p q)
       | XH -> XI p)
    | XH -> (match y with
             | XI q -> XO (succ q)
             | XO q -> XI q
             | XH -> XO XH)

  (** val add_carry : positive -> positive -> positive **)

  and add_carry x y =
    match x with
    | XI p ->
      (match y with
       | XI q -> XI (add_carry p q)
       | XO q -> XO (add_carry p q)
       | XH -> XI (succ p))
    | XO p ->
      (match y with
       | XI q -> XO (add_carry p q)
       | XO q -> XI (add p q)
       | XH -> XO (succ p))
    | XH ->
      (match y with
       | XI q -> XI (succ q)
       | XO q -> XO (succ q)
       | XH -> XI XH)

  (** val pred_double : positive -> positive **)

  let rec pred_double = function
  | XI p -> XI (XO p)
  | XO p -> XI (pred_double p)
  | XH -> XH

  type mask = Pos.mask =
  | IsNul
  | IsPos of positive
  | IsNeg

  (** val succ_double_mask : mask -> mask **)

  let succ_double_mask = function
  | IsNul -> IsPos XH
  | IsPos p -> IsPos (XI p)
  | IsNeg -> IsNeg

  (** val double_mask : mask -> mask **)

  let double_mask = function
  | IsPos p -> IsPos (XO p)
  | x0 -> x0

  (** val double_pred_mask : positive -> mask **)

  let double_pred_mask = function
  | XI p -> IsPos (XO (XO p))
  | XO p -> IsPos (XO (pred_double p))
  | XH -> IsNul

  (** val sub_mask : positive -> positive -> mask **)

  let rec sub_mask x y =
    match x with
    | XI p ->
      (match y with
       | XI q -> double_mask (sub_mask p q)
       | XO q -> succ_double_mask (sub_mask p q)
       | XH -> IsPos (XO p))
    | XO p ->
      (match y with
       | XI q -> succ_double_mask (sub_mask_carry p q)
       | XO q -> double_mask (sub_mask p q)
       | XH -> IsPos (pred_double p))
    | XH -> (match y with
             | XH -> IsNul
             | _ -> IsNeg)

  (** val sub_mask_carry : positive -> positive -> mask **)

  and sub_mask_carry x y =
    match x with
    | XI p ->
      (match y with
       | XI q -> succ_double_mask (sub_mask_carry p q)
       | XO q -> double_mask (sub_mask p q)
       | XH -> IsPos (pred_double p))
    | XO p ->
      (match y with
       | XI q -> double_mask (sub_mask_carry p q)
       | XO q -> succ_double_mask (sub_mask_carry p q)
       | XH -> double_pred_mask p)
    | XH -> IsNeg

  (** val mul : positive -> positive -> positive **)

  let rec mul x y =
    match x with
    | XI p -> add y (XO (mul p y))
    | XO p -> XO (mul p y)
    | XH -> y

  (** val compare_cont : comparison -> positive -> positive -> comparison **)

  let rec compare_cont r x y =
    match x with
    | XI p ->
      (match y with
       | XI q -> compare_cont r p q
       | XO q -> compare_cont Gt p q
       | XH -> Gt)
    | XO p ->
      (match y with
       | XI q -> compare_cont Lt p q
       | XO q -> compare_cont r p q
       | XH -> Gt)
    | XH -> (match y with
             | XH -> r
             | _ -> Lt)

  (** val compare : positive -> positive -> comparison **)

  let compare =
    compare_cont Eq

  (** val eqb : positive -> positive -> bool **)

  let rec eqb p q =
    match p with
    | XI p0 -> (match q with
                | XI q0 -> eqb p0 q0
                | _ -> false)
    | XO p0 -> (match q with
                | XO q0 -> eqb p0 q0
                | _ -> false)
    | XH -> (match q with
             | XH -> true
             | _ -> false)
 end

module N =
 struct
  (** val succ_double : n -> n **)

  let succ_double = function
  | N0 -> Npos XH
  | Npos p -> Npos (XI p)

  (** val double : n -> n **)

  let double = function
  | N0 -> N0
  | Npos p -> Npos (XO p)

  (** val add : n -> n -> n **)

  let add n0 m =
    match n0 with
    | N0 -> m
    | Npos p -> (match m with
                 | N0 -> n0
                 | Npos q -> Npos (Coq_Pos.add p q))

  (** val sub : n -> n -> n **)

  let sub n0 m =
    match n0 with
    | N0 -> N0
    | Npos n' ->
      (match m with
       | N0 -> n0
       | Npos m' ->
         (match Coq_Pos.sub_mask n' m' with
          | Coq_Pos.IsPos p -> Npos p
          | _ -> N0))

  (** val mul : n -> n -> n **)

  let mul n0 m =
    match n0 with
    | N0 -> N0
    | Npos p -> (match m with
                 | N0 -> N0
                 | Npos q -> Npos (Coq_Pos.mul p q))

  (** val compare : n -> n -> comparison **)

  let compare n0 m =
    match n0 with
    | N0 -> (match m with
             | N0 -> Eq
             | Npos _ -> Lt)
    | Npos n' -> (match m with
                  | N0 -> Gt
                  | Npos m' -> Coq_Pos.compare n' m')

  (** val eqb : n -> n -> bool **)

  let eqb n0 m =
    match n0 with
    | N0 -> (match m with
             | N0 -> true
             | Npos _ -> false)
    | Npos p -> (match m with
                 | N0 -> false
                 | Npos q -> Coq_Pos.eqb p q)

  (** val leb : n -> n -> bool **)

  let leb x y =
    match compare x y with
    | Gt -> false
    | _ -> true

  (** val ltb : n -> n -> bool **)

  let ltb x y =
    match compare x y with
    | Lt -> true
    | _ -> false

  (** val pos_div_eucl : positive -> n -> n * n **)

  let rec pos_div_eucl a b0 =
    match a with
    | XI a' ->
      let (q, r) = pos_div_eucl a' b0 in
      let r' = succ_double r in
      if leb b0 r' then ((succ_double q), (sub r' b0)) else ((double q), r')
    | XO a' ->
      let (q, r) = pos_div_eucl a' b0 in
      let r' = double r in
      if leb b0 r' then ((succ_double q), (sub r' b0)) else ((double q), r')
    | XH ->
      (match b0 with
       | N0 -> (N0, (Npos XH))
       | Npos p -> (match p with
                    | XH -> ((Npos XH), N0)
                    | _ -> (N0, (Npos XH))))

  (** val div_eucl : n -> n -> n * n **)

  let div_eucl a b0 =
    match a with
    | N0 -> (N0, N0)
    | Npos na -> (match b0 with
                  | N0 -> (N0, a)
                  | Npos _ -> pos_div_eucl na b0)

  (** val div : n -> n -> n **)

  let div a b0 =
    fst (div_eucl a b0)

  (** val modulo : n -> n -> n **)

  let modulo a b0 =
    snd (div_eucl a b0)
 end

type ascii =
| Ascii of bool * bool * bool * bool * bool * bool * bool * bool

(** val n_of_digits : bool list -> n **)

let rec n_of_digits = function
| [] -> N0
| b0 :: l' ->
  N.add (if b0 then Npos XH else N0) (N.mul (Npos (XO XH)) (n_of_digits l'))

(** val n_of_ascii : ascii -> n **)

let n_of_ascii = function
| Ascii (a0, a1, a2, a3, a4, a5, a6, a7) ->
  n_of_digits
    (a0 :: (a1 :: (a2 :: (a3 :: (a4 :: (a5 :: (a6 :: (a7 :: []))))))))

type string =
| EmptyString
| String of ascii * string

(** val list_ascii_of_string : string -> ascii list **)

let rec list_ascii_of_string = function
| EmptyString -> []
| String (ch, s0) -> ch :: (list_ascii_of_string s0)

type bytes = n list

(** val b : string -> bytes **)

let b s =
  map n_of_ascii (list_ascii_of_string s)

(** val mem_N : n -> n list -> bool **)

let mem_N x l =
  existsb (N.eqb x) l

type regex =
| Emp
| Eps
| Cls of (n * n) list
| Cat of regex * regex
| Alt of regex * regex
| Star of regex
| BeginText
| EndText
| BeginLine
| EndLine

(** val in_range : n -> (n * n) -> bool **)

let in_range c r =
  (&&) (N.leb (fst r) c) (N.leb c (snd r))

(** val in_ranges : n -> (n * n) list -> bool **)

let in_ranges c rs =
  existsb (in_range c) rs

(** val max_rune : n **)

let max_rune =
  Npos (XI (XI (XI (XI (XI (XI (XI (XI (XI (XI (XI (XI (XI (XI (XI (XI (XO
    (XO (XO (XO XH))))))))))))))))))))

(** val any_rune : regex **)

let any_rune =
  Cls ((N0, max_rune) :: [])

(** val any_star : regex **)

let any_star =
  Star any_rune

(** val plus : regex -> regex **)

let plus r =
  Cat (r, (Star r))

(** val opt : regex -> regex **)

let opt r =
  Alt (r, Eps)

(** val is_nl : n option -> bool **)

let is_nl = function
| Some c -> N.eqb c (Npos (XO (XI (XO XH))))
| None -> false

(** val is_none : 'a1 option -> bool **)

let is_none = function
| Some _ -> false
| None -> true

type pctx =
| PNone
| PNl
| POther

(** val pclass : n option -> pctx **)

let pclass = function
| Some c -> if N.eqb c (Npos (XO (XI (XO XH)))) then PNl else POther
| None -> PNone

(** val pctx_eqb : pctx -> pctx -> bool **)

let pctx_eqb a b0 =
  match a with
  | PNone -> (match b0 with
              | PNone -> true
              | _ -> false)
  | PNl -> (match b0 with
            | PNl -> true
            | _ -> false)
  | POther -> (match b0 with
               | POther -> true
               | _ -> false)

(** val nullable : pctx -> n option -> regex -> bool **)

let rec nullable p n0 = function
| Emp -> false
| Cls _ -> false
| Cat (a, b0) -> (&&) (nullable p n0 a) (nullable p n0 b0)
| Alt (a, b0) -> (||) (nullable p n0 a) (nullable p n0 b0)
| BeginText -> (match p with
                | PNone -> true
                | _ -> false)
| EndText -> is_none n0
| BeginLine -> (match p with
                | POther -> false
                | _ -> true)
| EndLine -> (||) (is_none n0) (is_nl n0)
| _ -> true

(** val cmp_then : comparison -> comparison -> comparison **)

let cmp_then c d =
  match c with
  | Eq -> d
  | _ -> c

(** val ranges_cmp : (n * n) list -> (n * n) list -> comparison **)

let rec ranges_cmp a b0 =
  match a with
  | [] -> (match b0 with
           | [] -> Eq
           | _ :: _ -> Lt)
  | p :: a' ->
    let (x1, y1) = p in
    (match b0 with
     | [] -> Gt
     | p0 :: b' ->
       let (x2, y2) = p0 in
       cmp_then (N.compare x1 x2)
         (cmp_then (N.compare y1 y2) (ranges_cmp a' b')))

(** val tag : regex -> n **)

let tag = function
| Emp -> N0
| Eps -> Npos XH
| Cls _ -> Npos (XO XH)
| Cat (_, _) -> Npos (XI XH)
| Alt (_, _) -> Npos (XO (XO XH))
| Star _ -> Npos (XI (XO XH))
| BeginText -> Npos (XO (XI XH))
| EndText -> Npos (XI (XI XH))
| BeginLine -> Npos (XO (XO (XO XH)))
| EndLine -> Npos (XI (XO (XO XH)))

(** val regex_cmp : regex -> regex -> comparison **)

let rec regex_cmp a b0 =
  match a with
  | Cls r1 ->
    (match b0 with
     | Cls r2 -> ranges_cmp r1 r2
     | _ -> N.compare (tag a) (tag b0))
  | Cat (a1, a2) ->
    (match b0 with
     | Cat (b1, b2) -> cmp_then (regex_cmp a1 b1) (regex_cmp a2 b2)
     | _ -> N.compare (tag a) (tag b0))
  | Alt (a1, a2) ->
    (match b0 with
     | Alt (b1, b2) -> cmp_then (regex_cmp a1 b1) (regex_cmp a2 b2)
     | _ -> N.compare (tag a) (tag b0))
  | Star a1 ->
    (match b0 with
     | Star b1 -> regex_cmp a1 b1
     | _ -> N.compare (tag a) (tag b0))
  | _ -> N.compare (tag a) (tag b0)

(** val regex_eqb : regex -> regex -> bool **)

let regex_eqb a b0 =
  match regex_cmp a b0 with
  | Eq -> true
  | _ -> false

(** val is_emp : regex -> bool **)

let is_emp = function
| Emp -> true
| _ -> false

(** val is_eps : regex -> bool **)

let is_eps = function
| Eps -> true
| _ -> false

(** val cat : regex -> regex -> regex **)

let cat a b0 =
  if (||) (is_emp a) (is_emp b0)
  then Emp
  else if is_eps a then b0 else if is_eps b0 then a else Cat (a, b0)

(** val alts : regex -> regex list **)

let rec alts r = match r with
| Emp -> []
| Alt (a, b0) -> app (alts a) (alts b0)
| _ -> r :: []

(** val insert_alt : regex -> regex list -> regex list **)

let rec insert_alt x l = match l with
| [] -> x :: []
| y :: l' ->
  (match regex_cmp x y with
   | Eq -> l
   | Lt -> x :: l
   | Gt -> y :: (insert_alt x l'))

(** val mk_alt : regex list -> regex **)

let rec mk_alt = function
| [] -> Emp
| x :: l' -> (match l' with
              | [] -> x
              | _ :: _ -> Alt (x, (mk_alt l')))

(** val alt : regex -> regex -> regex **)

let alt a b0 =
  mk_alt (fold_right insert_alt [] (app (alts a) (alts b0)))

(** val deriv : pctx -> n -> regex -> regex **)

let rec deriv p c = function
| Cls rs -> if in_ranges c rs then Eps else Emp
| Cat (a, b0) ->
  alt (cat (deriv p c a) b0)
    (if nullable p (Some c) a then deriv p c b0 else Emp)
| Alt (a, b0) -> alt (deriv p c a) (deriv p c b0)
| Star a -> cat (deriv p c a) (Star a)
| _ -> Emp

(** val accepts_from : pctx -> regex -> n list -> bool **)

let rec accepts_from p r = function
| [] -> nullable p None r
| c :: w' -> accepts_from (pclass (Some c)) (deriv p c r) w'

(** val accepts : regex -> n list -> bool **)

let accepts r w =
  accepts_from PNone r w

(** val search : regex -> regex **)

let search r =
  Cat (any_star, (Cat (r, any_star)))

(** val go_match : regex -> n list -> bool **)

let go_match r w =
  accepts (search r) w

(** val bounds : regex -> n list **)

let rec bounds = function
| Cls rs ->
  flat_map (fun x -> (fst x) :: ((N.add (snd x) (Npos XH)) :: [])) rs
| Cat (a, b0) -> app (bounds a) (bounds b0)
| Alt (a, b0) -> app (bounds a) (bounds b0)
| Star a -> bounds a
| _ -> []

(** val dedup : n list -> n list **)

let rec dedup = function
| [] -> []
| x :: l' -> if mem_N x l' then dedup l' else x :: (dedup l')

(** val ranges_ok : n list -> regex -> bool **)

let rec ranges_ok bs = function
| Cls rs ->
  forallb (fun x ->
    (&&) (mem_N (fst x) bs) (mem_N (N.add (snd x) (Npos XH)) bs)) rs
| Cat (a, b0) -> (&&) (ranges_ok bs a) (ranges_ok bs b0)
| Alt (a, b0) -> (&&) (ranges_ok bs a) (ranges_ok bs b0)
| Star a -> ranges_ok bs a
| _ -> true

type st = { st_p : pctx; st_a : regex; st_b : regex; st_w : n list }

(** val st_eqb : st -> st -> bool **)

let st_eqb x y =
  (&&) ((&&) (pctx_eqb x.st_p y.st_p) (regex_eqb x.st_a y.st_a))
    (regex_eqb x.st_b y.st_b)

(** val st_mem : st -> st list -> bool **)

let st_mem x l =
  existsb (st_eqb x) l

(** val succ0 : st -> n -> st **)

let succ0 x c =
  { st_p = (pclass (Some c)); st_a = (deriv x.st_p c x.st_a); st_b =
    (deriv x.st_p c x.st_b); st_w = (c :: x.st_w) }

(** val bad : st -> bool **)

let bad x =
  (&&) (nullable x.st_p None x.st_a) (negb (nullable x.st_p None x.st_b))

(** val explore : nat -> n list -> st list -> st list -> st list option **)

let rec explore fuel reps todo seen =
  match fuel with
  | O -> None
  | S f ->
    (match todo with
     | [] -> Some seen
     | x :: todo' ->
       let news =
         fold_left (fun acc c ->
           let y = succ0 x c in
           if (||) (st_mem y seen) (st_mem y acc) then acc else y :: acc)
           reps []
       in
       explore f reps (app todo' (rev news)) (app news seen))

(** val closed : n list -> n list -> st -> st list -> bool **)

let closed bs reps s0 l =
  (&&)
    ((&&)
      ((&&)
        ((&&)
          ((&&) (mem_N (Npos (XO (XI (XO XH)))) bs)
            (mem_N (Npos (XI (XI (XO XH)))) bs))
          (forallb (fun b0 -> mem_N b0 reps) bs)) (mem_N N0 reps))
      (st_mem s0 l))
    (forallb (fun x ->
      (&&)
        ((&&) ((&&) (ranges_ok bs x.st_a) (ranges_ok bs x.st_b))
          (negb (bad x))) (forallb (fun c -> st_mem (succ0 x c) l) reps)) l)

type verdict =
| Included
| Counterexample of n list
| Unknown

(** val incl_check : nat -> regex -> regex -> verdict **)

let incl_check fuel r1 r2 =
  let bs =
    dedup ((Npos (XO (XI (XO XH)))) :: ((Npos (XI (XI (XO
      XH)))) :: (app (bounds r1) (bounds r2))))
  in
  let reps = N0 :: bs in
  let s0 = { st_p = PNone; st_a = r1; st_b = r2; st_w = [] } in
  (match explore fuel reps (s0 :: []) (s0 :: []) with
   | Some l ->
     (match find bad l with
      | Some x ->
        let w = rev x.st_w in
        if (&&) (accepts r1 w) (negb (accepts r2 w))
        then Counterexample w
        else Unknown
      | None -> if closed bs reps s0 l then Included else Unknown)
   | None -> Unknown)

(** val fFFD : n **)

let fFFD =
  Npos (XI (XO (XI (XI (XI (XI (XI (XI (XI (XI (XI (XI (XI (XI (XI
    XH)))))))))))))))

(** val cont : n -> bool **)

let cont b0 =
  (&&) (N.leb (Npos (XO (XO (XO (XO (XO (XO (XO XH)))))))) b0)
    (N.leb b0 (Npos (XI (XI (XI (XI (XI (XI (XO XH)))))))))

(** val acc3 : n -> n -> bool **)

let acc3 b0 b1 =
  if N.eqb b0 (Npos (XO (XO (XO (XO (XO (XI (XI XH))))))))
  then (&&) (N.leb (Npos (XO (XO (XO (XO (XO (XI (XO XH)))))))) b1)
         (N.leb b1 (Npos (XI (XI (XI (XI (XI (XI (XO XH)))))))))
  else if N.eqb b0 (Npos (XI (XO (XI (XI (XO (XI (XI XH))))))))
       then (&&) (N.leb (Npos (XO (XO (XO (XO (XO (XO (XO XH)))))))) b1)
              (N.leb b1 (Npos (XI (XI (XI (XI (XI (XO (XO XH)))))))))
       else cont b1

(** val acc4 : n -> n -> bool **)

let acc4 b0 b1 =
  if N.eqb b0 (Npos (XO (XO (XO (XO (XI (XI (XI XH))))))))
  then (&&) (N.leb (Npos (XO (XO (XO (XO (XI (XO (XO XH)))))))) b1)
         (N.leb b1 (Npos (XI (XI (XI (XI (XI (XI (XO XH)))))))))
  else if N.eqb b0 (Npos (XO (XO (XI (XO (XI (XI (XI XH))))))))
       then (&&) (N.leb (Npos (XO (XO (XO (XO (XO (XO (XO XH)))))))) b1)
              (N.leb b1 (Npos (XI (XI (XI (XI (XO (XO (XO XH)))))))))
       else cont b1

(** val decode_runes : bytes -> n list **)

let rec decode_runes = function
| [] -> []
| b0 :: r0 ->
  if N.ltb b0 (Npos (XO (XO (XO (XO (XO (XO (XO XH))))))))
  then b0 :: (decode_runes r0)
  else if (&&) (N.leb (Npos (XO (XI (XO (XO (XO (XO (XI XH)))))))) b0)
            (N.leb b0 (Npos (XI (XI (XI (XI (XI (XO (XI XH)))))))))
       then (match r0 with
             | [] -> fFFD :: (decode_runes r0)
             | b1 :: r1 ->
               if cont b1
               then (N.add
                      (N.mul
                        (N.sub b0 (Npos (XO (XO (XO (XO (XO (XO (XI
                          XH))))))))) (Npos (XO (XO (XO (XO (XO (XO XH))))))))
                      (N.sub b1 (Npos (XO (XO (XO (XO (XO (XO (XO XH)))))))))) :: 
                      (decode_runes r1)
               else fFFD :: (decode_runes r0))
       else if (&&) (N.leb (Npos (XO (XO (XO (XO (XO (XI (XI XH)))))))) b0)
                 (N.leb b0 (Npos (XI (XI (XI (XI (XO (XI (XI XH)))))))))
            then (match r0 with
                  | [] -> fFFD :: (decode_runes r0)
                  | b1 :: l ->
                    (match l with
                     | [] -> fFFD :: (decode_runes r0)
                     | b2 :: r2 ->
                       if (&&) (acc3 b0 b1) (cont b2)
                       then (N.add
                              (N.add
                                (N.mul
                                  (N.sub b0 (Npos (XO (XO (XO (XO (XO (XI (XI
                                    XH))))))))) (Npos (XO (XO (XO (XO (XO (XO
                                  (XO (XO (XO (XO (XO (XO XH))))))))))))))
                                (N.mul
                                  (N.sub b1 (Npos (XO (XO (XO (XO (XO (XO (XO
                                    XH))))))))) (Npos (XO (XO (XO (XO (XO (XO
                                  XH)))))))))
                              (N.sub b2 (Npos (XO (XO (XO (XO (XO (XO (XO
                                XH)))))))))) :: (decode_runes r2)
                       else fFFD :: (decode_runes r0)))
            else if (&&)
                      (N.leb (Npos (XO (XO (XO (XO (XI (XI (XI XH)))))))) b0)
                      (N.leb b0 (Npos (XO (XO (XI (XO (XI (XI (XI XH)))))))))
                 then (match r0 with
                       | [] -> fFFD :: (decode_runes r0)
                       | b1 :: l ->
                         (match l with
                          | [] -> fFFD :: (decode_runes r0)
                          | b2 :: l0 ->
                            (match l0 with
                             | [] -> fFFD :: (decode_runes r0)
                             | b3 :: r3 ->
                               if (&&) ((&&) (acc4 b0 b1) (cont b2)) (cont b3)
                               then (N.add
                                      (N.add
                                        (N.add
                                          (N.mul
                                            (N.sub b0 (Npos (XO (XO (XO (XO
                                              (XI (XI (XI XH))))))))) (Npos
                                            (XO (XO (XO (XO (XO (XO (XO (XO
                                            (XO (XO (XO (XO (XO (XO (XO (XO
                                            (XO (XO XH))))))))))))))))))))
                                          (N.mul
                                            (N.sub b1 (Npos (XO (XO (XO (XO
                                              (XO (XO (XO XH))))))))) (Npos
                                            (XO (XO (XO (XO (XO (XO (XO (XO
                                            (XO (XO (XO (XO XH)))))))))))))))
                                        (N.mul
                                          (N.sub b2 (Npos (XO (XO (XO (XO (XO
                                            (XO (XO XH))))))))) (Npos (XO (XO
                                          (XO (XO (XO (XO XH)))))))))
                                      (N.sub b3 (Npos (XO (XO (XO (XO (XO (XO
                                        (XO XH)))))))))) :: (decode_runes r3)
                               else fFFD :: (decode_runes r0))))
                 else fFFD :: (decode_runes r0)

(** val is_surrogate : n -> bool **)

let is_surrogate r =
  (&&)
    (N.leb (Npos (XO (XO (XO (XO (XO (XO (XO (XO (XO (XO (XO (XI (XI (XO (XI
      XH)))))))))))))))) r)
    (N.leb r (Npos (XI (XI (XI (XI (XI (XI (XI (XI (XI (XI (XI (XI (XI (XO
      (XI XH)))))))))))))))))

(** val encode_rune : n -> bytes **)

let encode_rune r =
  if N.ltb r (Npos (XO (XO (XO (XO (XO (XO (XO XH))))))))
  then r :: []
  else if N.ltb r (Npos (XO (XO (XO (XO (XO (XO (XO (XO (XO (XO (XO
            XH))))))))))))
       then (N.add (Npos (XO (XO (XO (XO (XO (XO (XI XH))))))))
              (N.div r (Npos (XO (XO (XO (XO (XO (XO XH))))))))) :: (
              (N.add (Npos (XO (XO (XO (XO (XO (XO (XO XH))))))))
                (N.modulo r (Npos (XO (XO (XO (XO (XO (XO XH))))))))) :: [])
       else if (||) (is_surrogate r)
                 (N.ltb (Npos (XI (XI (XI (XI (XI (XI (XI (XI (XI (XI (XI (XI
                   (XI (XI (XI (XI (XO (XO (XO (XO XH))))))))))))))))))))) r)
            then (Npos (XI (XI (XI (XI (XO (XI (XI XH)))))))) :: ((Npos (XI
                   (XI (XI (XI (XI (XI (XO XH)))))))) :: ((Npos (XI (XO (XI
                   (XI (XI (XI (XO XH)))))))) :: []))
            else if N.ltb r (Npos (XO (XO (XO (XO (XO (XO (XO (XO (XO (XO (XO
                      (XO (XO (XO (XO (XO XH)))))))))))))))))
                 then (N.add (Npos (XO (XO (XO (XO (XO (XI (XI XH))))))))
                        (N.div r (Npos (XO (XO (XO (XO (XO (XO (XO (XO (XO
                          (XO (XO (XO XH))))))))))))))) :: ((N.add (Npos (XO
                                                              (XO (XO (XO (XO
                                                              (XO (XO
                                                              XH))))))))
                                                              (N.modulo
                                                                (N.div r
                                                                  (Npos (XO
                                                                  (XO (XO (XO
                                                                  (XO (XO
                                                                  XH))))))))
                                                                (Npos (XO (XO
                                                                (XO (XO (XO
                                                                (XO XH))))))))) :: (
                        (N.add (Npos (XO (XO (XO (XO (XO (XO (XO XH))))))))
                          (N.modulo r (Npos (XO (XO (XO (XO (XO (XO XH))))))))) :: []))
                 else (N.add (Npos (XO (XO (XO (XO (XI (XI (XI XH))))))))
                        (N.div r (Npos (XO (XO (XO (XO (XO (XO (XO (XO (XO
                          (XO (XO (XO (XO (XO (XO (XO (XO (XO
                          XH))))))))))))))))))))) :: ((N.add (Npos (XO (XO
                                                        (XO (XO (XO (XO (XO
                                                        XH))))))))
                                                        (N.modulo
                                                          (N.div r (Npos (XO
                                                            (XO (XO (XO (XO
                                                            (XO (XO (XO (XO
                                                            (XO (XO (XO
                                                            XH))))))))))))))
                                                          (Npos (XO (XO (XO
                                                          (XO (XO (XO
                                                          XH))))))))) :: (
                        (N.add (Npos (XO (XO (XO (XO (XO (XO (XO XH))))))))
                          (N.modulo
                            (N.div r (Npos (XO (XO (XO (XO (XO (XO XH))))))))
                            (Npos (XO (XO (XO (XO (XO (XO XH))))))))) :: (
                        (N.add (Npos (XO (XO (XO (XO (XO (XO (XO XH))))))))
                          (N.modulo r (Npos (XO (XO (XO (XO (XO (XO XH))))))))) :: [])))

(** val encode_runes : n list -> bytes **)

let encode_runes l =
  flat_map encode_rune l

(** val g_containsWhitespaceOrControlPattern : regex **)

let g_containsWhitespaceOrControlPattern =
  Cls ((N0, (Npos (XO (XO (XO (XO (XO XH))))))) :: (((Npos (XI (XI (XI (XI
    (XI (XI XH))))))), (Npos (XI (XI (XI (XI (XI (XI XH)))))))) :: []))

(** val g_cssStringPattern : regex **)

let g_cssStringPattern =
  Alt ((Cat ((Cls (((Npos (XO (XI (XO (XO (XO XH)))))), (Npos (XO (XI (XO (XO
    (XO XH))))))) :: [])), (Cat ((Star (Alt ((Cls ((N0, (Npos (XI (XO (XO
    XH))))) :: (((Npos (XI (XI (XO XH)))), (Npos (XI (XI (XO
    XH))))) :: (((Npos (XO (XI (XI XH)))), (Npos (XI (XO (XO (XO (XO
    XH))))))) :: (((Npos (XI (XI (XO (XO (XO XH)))))), (Npos (XI (XI (XO (XI
    (XI (XO XH)))))))) :: (((Npos (XI (XO (XI (XI (XI (XO XH))))))), (Npos
    (XI (XI (XI (XI (XI (XI (XI (XI (XI (XI (XI (XI (XI (XI (XI (XI (XO (XO
    (XO (XO XH)))))))))))))))))))))) :: [])))))), (Cat ((Cls (((Npos (XO (XO
    (XI (XI (XI (XO XH))))))), (Npos (XO (XO (XI (XI (XI (XO
    XH)))))))) :: [])), (Cls ((N0, (Npos (XI (XI (XI (XI (XI (XI (XI (XI (XI
    (XI (XI (XI (XI (XI (XI (XI (XO (XO (XO (XO
    XH)))))))))))))))))))))) :: []))))))), (Cls (((Npos (XO (XI (XO (XO (XO
    XH)))))), (Npos (XO (XI (XO (XO (XO XH))))))) :: [])))))), (Cat ((Cls
    (((Npos (XI (XI (XI (XO (XO XH)))))), (Npos (XI (XI (XI (XO (XO
    XH))))))) :: [])), (Cat ((Star (Alt ((Cls ((N0, (Npos (XI (XO (XO
    XH))))) :: (((Npos (XI (XI (XO XH)))), (Npos (XI (XI (XO
    XH))))) :: (((Npos (XO (XI (XI XH)))), (Npos (XO (XI (XI (XO (XO
    XH))))))) :: (((Npos (XO (XO (XO (XI (XO XH)))))), (Npos (XI (XI (XO (XI
    (XI (XO XH)))))))) :: (((Npos (XI (XO (XI (XI (XI (XO XH))))))), (Npos
    (XI (XI (XI (XI (XI (XI (XI (XI (XI (XI (XI (XI (XI (XI (XI (XI (XO (XO
    (XO (XO XH)))))))))))))))))))))) :: [])))))), (Cat ((Cls (((Npos (XO (XO
    (XI (XI (XI (XO XH))))))), (Npos (XO (XO (XI (XI (XI (XO
    XH)))))))) :: [])), (Cls ((N0, (Npos (XI (XI (XI (XI (XI (XI (XI (XI (XI
    (XI (XI (XI (XI (XI (XI (XI (XO (XO (XO (XO
    XH)))))))))))))))))))))) :: []))))))), (Cls (((Npos (XI (XI (XI (XO (XO
    XH)))))), (Npos (XI (XI (XI (XO (XO XH))))))) :: [])))))))

(** val g_dataAttributeNamePattern : regex **)

let g_dataAttributeNamePattern =
  Cat (BeginText, (Cat ((Cat ((Cls (((Npos (XO (XO (XI (XO (XO (XI XH))))))),
    (Npos (XO (XO (XI (XO (XO (XI XH)))))))) :: [])), (Cat ((Cls (((Npos (XI
    (XO (XO (XO (XO (XI XH))))))), (Npos (XI (XO (XO (XO (XO (XI
    XH)))))))) :: [])), (Cat ((Cls (((Npos (XO (XO (XI (XO (XI (XI XH))))))),
    (Npos (XO (XO (XI (XO (XI (XI XH)))))))) :: [])), (Cat ((Cls (((Npos (XI
    (XO (XO (XO (XO (XI XH))))))), (Npos (XI (XO (XO (XO (XO (XI
    XH)))))))) :: [])), (Cls (((Npos (XI (XO (XI (XI (XO XH)))))), (Npos (XI
    (XO (XI (XI (XO XH))))))) :: [])))))))))), (Cat ((Cls (((Npos (XI (XI (XI
    (XI (XI (XO XH))))))), (Npos (XI (XI (XI (XI (XI (XO
    XH)))))))) :: (((Npos (XI (XO (XO (XO (XO (XI XH))))))), (Npos (XO (XI
    (XO (XI (XI (XI XH)))))))) :: []))), (Cat ((Star (Cls (((Npos (XI (XO (XI
    (XI (XO XH)))))), (Npos (XI (XO (XI (XI (XO XH))))))) :: (((Npos (XO (XO
    (XO (XO (XI XH)))))), (Npos (XI (XO (XO (XI (XI XH))))))) :: (((Npos (XI
    (XI (XI (XI (XI (XO XH))))))), (Npos (XI (XI (XI (XI (XI (XO
    XH)))))))) :: (((Npos (XI (XO (XO (XO (XO (XI XH))))))), (Npos (XO (XI
    (XO (XI (XI (XI XH)))))))) :: [])))))), EndText)))))))

(** val g_endsWithCharRefPrefixPattern : regex **)

let g_endsWithCharRefPrefixPattern =
  Cat ((Cls (((Npos (XO (XI (XI (XO (XO XH)))))), (Npos (XO (XI (XI (XO (XO
    XH))))))) :: [])), (Cat
    ((opt (Alt ((Cat ((Cls (((Npos (XI (XO (XO (XO (XO (XO XH))))))), (Npos
       (XO (XI (XO (XI (XI (XO XH)))))))) :: (((Npos (XI (XO (XO (XO (XO (XI
       XH))))))), (Npos (XO (XI (XO (XI (XI (XI XH)))))))) :: []))), (Star
       (Cls (((Npos (XO (XO (XO (XO (XI XH)))))), (Npos (XI (XO (XO (XI (XI
       XH))))))) :: (((Npos (XI (XO (XO (XO (XO (XO XH))))))), (Npos (XO (XI
       (XO (XI (XI (XO XH)))))))) :: (((Npos (XI (XO (XO (XO (XO (XI
       XH))))))), (Npos (XO (XI (XO (XI (XI (XI XH)))))))) :: []))))))), (Cat
       ((Cls (((Npos (XI (XI (XO (XO (XO XH)))))), (Npos (XI (XI (XO (XO (XO
       XH))))))) :: [])), (Alt ((Cat ((Cls (((Npos (XO (XO (XO (XI (XI (XO
       XH))))))), (Npos (XO (XO (XO (XI (XI (XO XH)))))))) :: (((Npos (XO (XO
       (XO (XI (XI (XI XH))))))), (Npos (XO (XO (XO (XI (XI (XI
       XH)))))))) :: []))), (Star (Cls (((Npos (XO (XO (XO (XO (XI XH)))))),
       (Npos (XI (XO (XO (XI (XI XH))))))) :: (((Npos (XI (XO (XO (XO (XO (XO
       XH))))))), (Npos (XO (XI (XI (XO (XO (XO XH)))))))) :: (((Npos (XI (XO
       (XO (XO (XO (XI XH))))))), (Npos (XO (XI (XI (XO (XO (XI
       XH)))))))) :: []))))))), (Star (Cls (((Npos (XO (XO (XO (XO (XI
       XH)))))), (Npos (XI (XO (XO (XI (XI XH))))))) :: [])))))))))),
    EndText)))

(** val g_endsWithPercentEncodingPrefixPattern : regex **)

let g_endsWithPercentEncodingPrefixPattern =
  Cat ((Cls (((Npos (XI (XO (XI (XO (XO XH)))))), (Npos (XI (XO (XI (XO (XO
    XH))))))) :: [])), (Cat
    ((opt (Cls (((Npos (XO (XO (XO (XO (XI XH)))))), (Npos (XI (XO (XO (XI
       (XI XH))))))) :: (((Npos (XI (XO (XO (XO (XO (XO XH))))))), (Npos (XO
       (XI (XI (XO (XO (XO XH)))))))) :: (((Npos (XI (XO (XO (XO (XO (XI
       XH))))))), (Npos (XO (XI (XI (XO (XO (XI XH)))))))) :: []))))),
    EndText)))

(** val g_identifierPattern : regex **)

let g_identifierPattern =
  Cat (BeginText, (Cat ((Cls (((Npos (XI (XO (XO (XO (XO (XO XH))))))), (Npos
    (XO (XI (XO (XI (XI (XO XH)))))))) :: (((Npos (XI (XO (XO (XO (XO (XI
    XH))))))), (Npos (XO (XI (XO (XI (XI (XI XH)))))))) :: []))), (Cat
    ((plus (Cls (((Npos (XI (XO (XI (XI (XO XH)))))), (Npos (XI (XO (XI (XI
       (XO XH))))))) :: (((Npos (XI (XO (XO (XO (XO (XO XH))))))), (Npos (XO
       (XI (XO (XI (XI (XO XH)))))))) :: (((Npos (XI (XO (XO (XO (XO (XI
       XH))))))), (Npos (XO (XI (XO (XI (XI (XI XH)))))))) :: []))))),
    EndText)))))

(** val g_invalidCSSSelectorRune : regex **)

let g_invalidCSSSelectorRune =
  Cls ((N0, (Npos (XI (XI (XI (XI XH)))))) :: (((Npos (XI (XO (XO (XO (XO
    XH)))))), (Npos (XO (XI (XO (XO (XO XH))))))) :: (((Npos (XI (XO (XI (XO
    (XO XH)))))), (Npos (XI (XI (XI (XO (XO XH))))))) :: (((Npos (XI (XI (XI
    (XI (XO XH)))))), (Npos (XI (XI (XI (XI (XO XH))))))) :: (((Npos (XI (XI
    (XO (XI (XI XH)))))), (Npos (XO (XO (XI (XI (XI XH))))))) :: (((Npos (XI
    (XI (XI (XI (XI XH)))))), (Npos (XO (XO (XO (XO (XO (XO
    XH)))))))) :: (((Npos (XO (XO (XI (XI (XI (XO XH))))))), (Npos (XO (XO
    (XI (XI (XI (XO XH)))))))) :: (((Npos (XO (XO (XO (XO (XO (XI XH))))))),
    (Npos (XO (XO (XO (XO (XO (XI XH)))))))) :: (((Npos (XI (XI (XO (XI (XI
    (XI XH))))))), (Npos (XI (XI (XO (XI (XI (XI XH)))))))) :: (((Npos (XI
    (XO (XI (XI (XI (XI XH))))))), (Npos (XI (XO (XI (XI (XI (XI
    XH)))))))) :: (((Npos (XI (XI (XI (XI (XI (XI XH))))))), (Npos (XI (XI
    (XI (XI (XI (XI (XI (XI (XI (XI (XI (XI (XI (XI (XI (XI (XO (XO (XO (XO
    XH)))))))))))))))))))))) :: [])))))))))))

(** val g_jsIdentifierPattern : regex **)

let g_jsIdentifierPattern =
  Cat (BeginText, (Cat ((Cls (((Npos (XO (XO (XI (XO (XO XH)))))), (Npos (XO
    (XO (XI (XO (XO XH))))))) :: (((Npos (XI (XO (XO (XO (XO (XO XH))))))),
    (Npos (XO (XI (XO (XI (XI (XO XH)))))))) :: (((Npos (XI (XI (XI (XI (XI
    (XO XH))))))), (Npos (XI (XI (XI (XI (XI (XO XH)))))))) :: (((Npos (XI
    (XO (XO (XO (XO (XI XH))))))), (Npos (XO (XI (XO (XI (XI (XI
    XH)))))))) :: []))))), (Cat
    ((plus (Cls (((Npos (XO (XO (XI (XO (XO XH)))))), (Npos (XO (XO (XI (XO
       (XO XH))))))) :: (((Npos (XO (XO (XO (XO (XI XH)))))), (Npos (XI (XO
       (XO (XI (XI XH))))))) :: (((Npos (XI (XO (XO (XO (XO (XO XH))))))),
       (Npos (XO (XI (XO (XI (XI (XO XH)))))))) :: (((Npos (XI (XI (XI (XI
       (XI (XO XH))))))), (Npos (XI (XI (XI (XI (XI (XO XH)))))))) :: (((Npos
       (XI (XO (XO (XO (XO (XI XH))))))), (Npos (XO (XI (XO (XI (XI (XI
       XH)))))))) :: []))))))), EndText)))))

(** val g_onlyAlphanumericsOrHyphenPattern : regex **)

let g_onlyAlphanumericsOrHyphenPattern =
  Cat (BeginText, (Cat ((Star (Cls (((Npos (XI (XO (XI (XI (XO XH)))))),
    (Npos (XI (XO (XI (XI (XO XH))))))) :: (((Npos (XO (XO (XO (XO (XI
    XH)))))), (Npos (XI (XO (XO (XI (XI XH))))))) :: (((Npos (XI (XO (XO (XO
    (XO (XO XH))))))), (Npos (XO (XI (XO (XI (XI (XO XH)))))))) :: (((Npos
    (XI (XI (XI (XI (XI (XO XH))))))), (Npos (XI (XI (XI (XI (XI (XO
    XH)))))))) :: (((Npos (XI (XO (XO (XO (XO (XI XH))))))), (Npos (XO (XI
    (XO (XI (XI (XI XH)))))))) :: []))))))), EndText)))

(** val g_safeEnumPropertyValuePattern : regex **)

let g_safeEnumPropertyValuePattern =
  Cat (BeginText, (Cat ((Star (Cls (((Npos (XI (XO (XI (XI (XO XH)))))),
    (Npos (XI (XO (XI (XI (XO XH))))))) :: (((Npos (XI (XO (XO (XO (XO (XO
    XH))))))), (Npos (XO (XI (XO (XI (XI (XO XH)))))))) :: (((Npos (XI (XO
    (XO (XO (XO (XI XH))))))), (Npos (XO (XI (XO (XI (XI (XI
    XH)))))))) :: []))))), EndText)))

(** val g_safeRegularPropertyValuePattern : regex **)

let g_safeRegularPropertyValuePattern =
  Cat (BeginText, (Cat ((Star (Cat
    ((opt (Cls (((Npos (XO (XI (XO (XI (XO XH)))))), (Npos (XO (XI (XO (XI
       (XO XH))))))) :: (((Npos (XI (XI (XI (XI (XO XH)))))), (Npos (XI (XI
       (XI (XI (XO XH))))))) :: [])))), (Alt ((Cls (((Npos (XI (XO (XO
    XH)))), (Npos (XI (XO (XO XH))))) :: (((Npos (XO (XO (XO (XO (XO
    XH)))))), (Npos (XI (XO (XO (XO (XO XH))))))) :: (((Npos (XI (XI (XO (XO
    (XO XH)))))), (Npos (XI (XI (XO (XO (XO XH))))))) :: (((Npos (XI (XO (XI
    (XO (XO XH)))))), (Npos (XI (XO (XI (XO (XO XH))))))) :: (((Npos (XI (XI
    (XO (XI (XO XH)))))), (Npos (XO (XI (XI (XI (XO XH))))))) :: (((Npos (XO
    (XO (XO (XO (XI XH)))))), (Npos (XI (XO (XO (XI (XI XH))))))) :: (((Npos
    (XI (XO (XO (XO (XO (XO XH))))))), (Npos (XO (XI (XO (XI (XI (XO
    XH)))))))) :: (((Npos (XI (XI (XI (XI (XI (XO XH))))))), (Npos (XI (XI
    (XI (XI (XI (XO XH)))))))) :: (((Npos (XI (XO (XO (XO (XO (XI XH))))))),
    (Npos (XO (XI (XO (XI (XI (XI XH)))))))) :: [])))))))))), EndText))))),
    EndText)))

(** val g_safeTrustedResourceURLPrefixPattern : regex **)

let g_safeTrustedResourceURLPrefixPattern =
  Cat (BeginText, (Alt ((Cat
    ((opt (Cat ((Cls (((Npos (XO (XO (XO (XI (XO (XO XH))))))), (Npos (XO (XO
       (XO (XI (XO (XO XH)))))))) :: (((Npos (XO (XO (XO (XI (XO (XI
       XH))))))), (Npos (XO (XO (XO (XI (XO (XI XH)))))))) :: []))), (Cat
       ((Cls (((Npos (XO (XO (XI (XO (XI (XO XH))))))), (Npos (XO (XO (XI (XO
       (XI (XO XH)))))))) :: (((Npos (XO (XO (XI (XO (XI (XI XH))))))), (Npos
       (XO (XO (XI (XO (XI (XI XH)))))))) :: []))), (Cat ((Cls (((Npos (XO
       (XO (XI (XO (XI (XO XH))))))), (Npos (XO (XO (XI (XO (XI (XO
       XH)))))))) :: (((Npos (XO (XO (XI (XO (XI (XI XH))))))), (Npos (XO (XO
       (XI (XO (XI (XI XH)))))))) :: []))), (Cat ((Cls (((Npos (XO (XO (XO
       (XO (XI (XO XH))))))), (Npos (XO (XO (XO (XO (XI (XO
       XH)))))))) :: (((Npos (XO (XO (XO (XO (XI (XI XH))))))), (Npos (XO (XO
       (XO (XO (XI (XI XH)))))))) :: []))), (Cat ((Cls (((Npos (XI (XI (XO
       (XO (XI (XO XH))))))), (Npos (XI (XI (XO (XO (XI (XO
       XH)))))))) :: (((Npos (XI (XI (XO (XO (XI (XI XH))))))), (Npos (XI (XI
       (XO (XO (XI (XI XH)))))))) :: (((Npos (XI (XI (XI (XI (XI (XI (XI (XO
       XH))))))))), (Npos (XI (XI (XI (XI (XI (XI (XI (XO
       XH)))))))))) :: [])))), (Cls (((Npos (XO (XI (XO (XI (XI XH)))))),
       (Npos (XO (XI (XO (XI (XI XH))))))) :: []))))))))))))), (Cat ((Cat
    ((Cls (((Npos (XI (XI (XI (XI (XO XH)))))), (Npos (XI (XI (XI (XI (XO
    XH))))))) :: [])), (Cls (((Npos (XI (XI (XI (XI (XO XH)))))), (Npos (XI
    (XI (XI (XI (XO XH))))))) :: [])))), (Cat
    ((plus (Cls (((Npos (XI (XO (XI (XI (XO XH)))))), (Npos (XO (XI (XI (XI
       (XO XH))))))) :: (((Npos (XO (XO (XO (XO (XI XH)))))), (Npos (XO (XI
       (XO (XI (XI XH))))))) :: (((Npos (XI (XO (XO (XO (XO (XO XH))))))),
       (Npos (XI (XI (XO (XI (XI (XO XH)))))))) :: (((Npos (XI (XO (XI (XI
       (XI (XO XH))))))), (Npos (XI (XO (XI (XI (XI (XO XH)))))))) :: (((Npos
       (XI (XO (XO (XO (XO (XI XH))))))), (Npos (XO (XI (XO (XI (XI (XI
       XH)))))))) :: (((Npos (XI (XI (XI (XI (XI (XI (XI (XO XH))))))))),
       (Npos (XI (XI (XI (XI (XI (XI (XI (XO XH)))))))))) :: (((Npos (XO (XI
       (XO (XI (XO (XI (XO (XO (XI (XO (XO (XO (XO XH)))))))))))))), (Npos
       (XO (XI (XO (XI (XO (XI (XO (XO (XI (XO (XO (XO (XO
       XH))))))))))))))) :: []))))))))), (Cls (((Npos (XI (XI (XI (XI (XO
    XH)))))), (Npos (XI (XI (XI (XI (XO XH))))))) :: [])))))))), (Alt ((Cat
    ((Cls (((Npos (XI (XI (XI (XI (XO XH)))))), (Npos (XI (XI (XI (XI (XO
    XH))))))) :: [])), (Cls ((N0, (Npos (XO (XI (XI (XI (XO
    XH))))))) :: (((Npos (XO (XO (XO (XO (XI XH)))))), (Npos (XI (XI (XO (XI
    (XI (XO XH)))))))) :: (((Npos (XI (XO (XI (XI (XI (XO XH))))))), (Npos
    (XI (XI (XI (XI (XI (XI (XI (XI (XI (XI (XI (XI (XI (XI (XI (XI (XO (XO
    (XO (XO XH)))))))))))))))))))))) :: [])))))), (Cat ((Cls (((Npos (XI (XO
    (XO (XO (XO (XO XH))))))), (Npos (XI (XO (XO (XO (XO (XO
    XH)))))))) :: (((Npos (XI (XO (XO (XO (XO (XI XH))))))), (Npos (XI (XO
    (XO (XO (XO (XI XH)))))))) :: []))), (Cat ((Cls (((Npos (XO (XI (XO (XO
    (XO (XO XH))))))), (Npos (XO (XI (XO (XO (XO (XO XH)))))))) :: (((Npos
    (XO (XI (XO (XO (XO (XI XH))))))), (Npos (XO (XI (XO (XO (XO (XI
    XH)))))))) :: []))), (Cat ((Cls (((Npos (XI (XI (XI (XI (XO (XO
    XH))))))), (Npos (XI (XI (XI (XI (XO (XO XH)))))))) :: (((Npos (XI (XI
    (XI (XI (XO (XI XH))))))), (Npos (XI (XI (XI (XI (XO (XI
    XH)))))))) :: []))), (Cat ((Cls (((Npos (XI (XO (XI (XO (XI (XO
    XH))))))), (Npos (XI (XO (XI (XO (XI (XO XH)))))))) :: (((Npos (XI (XO
    (XI (XO (XI (XI XH))))))), (Npos (XI (XO (XI (XO (XI (XI
    XH)))))))) :: []))), (Cat ((Cls (((Npos (XO (XO (XI (XO (XI (XO
    XH))))))), (Npos (XO (XO (XI (XO (XI (XO XH)))))))) :: (((Npos (XO (XO
    (XI (XO (XI (XI XH))))))), (Npos (XO (XO (XI (XO (XI (XI
    XH)))))))) :: []))), (Cat ((Cls (((Npos (XO (XI (XO (XI (XI XH)))))),
    (Npos (XO (XI (XO (XI (XI XH))))))) :: [])), (Cat ((Cls (((Npos (XO (XI
    (XO (XO (XO (XO XH))))))), (Npos (XO (XI (XO (XO (XO (XO
    XH)))))))) :: (((Npos (XO (XI (XO (XO (XO (XI XH))))))), (Npos (XO (XI
    (XO (XO (XO (XI XH)))))))) :: []))), (Cat ((Cls (((Npos (XO (XO (XI (XI
    (XO (XO XH))))))), (Npos (XO (XO (XI (XI (XO (XO XH)))))))) :: (((Npos
    (XO (XO (XI (XI (XO (XI XH))))))), (Npos (XO (XO (XI (XI (XO (XI
    XH)))))))) :: []))), (Cat ((Cls (((Npos (XI (XO (XO (XO (XO (XO
    XH))))))), (Npos (XI (XO (XO (XO (XO (XO XH)))))))) :: (((Npos (XI (XO
    (XO (XO (XO (XI XH))))))), (Npos (XI (XO (XO (XO (XO (XI
    XH)))))))) :: []))), (Cat ((Cls (((Npos (XO (XI (XI (XI (XO (XO
    XH))))))), (Npos (XO (XI (XI (XI (XO (XO XH)))))))) :: (((Npos (XO (XI
    (XI (XI (XO (XI XH))))))), (Npos (XO (XI (XI (XI (XO (XI
    XH)))))))) :: []))), (Cat ((Cls (((Npos (XI (XI (XO (XI (XO (XO
    XH))))))), (Npos (XI (XI (XO (XI (XO (XO XH)))))))) :: (((Npos (XI (XI
    (XO (XI (XO (XI XH))))))), (Npos (XI (XI (XO (XI (XO (XI
    XH)))))))) :: (((Npos (XO (XI (XO (XI (XO (XI (XO (XO (XI (XO (XO (XO (XO
    XH)))))))))))))), (Npos (XO (XI (XO (XI (XO (XI (XO (XO (XI (XO (XO (XO
    (XO XH))))))))))))))) :: [])))), (Cls (((Npos (XI (XI (XO (XO (XO
    XH)))))), (Npos (XI (XI (XO (XO (XO
    XH))))))) :: [])))))))))))))))))))))))))))))

(** val g_safeURLPattern : regex **)

let g_safeURLPattern =
  Cat (BeginText, (Alt ((Cat
    ((plus (Cls (((Npos (XI (XI (XO (XI (XO XH)))))), (Npos (XI (XI (XO (XI
       (XO XH))))))) :: (((Npos (XI (XO (XI (XI (XO XH)))))), (Npos (XO (XI
       (XI (XI (XO XH))))))) :: (((Npos (XO (XO (XO (XO (XI XH)))))), (Npos
       (XI (XO (XO (XI (XI XH))))))) :: (((Npos (XI (XO (XO (XO (XO (XI
       XH))))))), (Npos (XO (XI (XO (XI (XI (XI XH)))))))) :: [])))))), (Cls
    (((Npos (XO (XI (XO (XI (XI XH)))))), (Npos (XO (XI (XO (XI (XI
    XH))))))) :: [])))), (Cat ((Star (Cls ((N0, (Npos (XO (XI (XO (XO (XO
    XH))))))) :: (((Npos (XO (XO (XI (XO (XO XH)))))), (Npos (XI (XO (XI (XO
    (XO XH))))))) :: (((Npos (XI (XI (XI (XO (XO XH)))))), (Npos (XO (XI (XI
    (XI (XO XH))))))) :: (((Npos (XO (XO (XO (XO (XI XH)))))), (Npos (XI (XO
    (XO (XI (XI XH))))))) :: (((Npos (XI (XI (XO (XI (XI XH)))))), (Npos (XO
    (XI (XI (XI (XI XH))))))) :: (((Npos (XO (XO (XO (XO (XO (XO XH))))))),
    (Npos (XI (XI (XI (XI (XI (XI (XI (XI (XI (XI (XI (XI (XI (XI (XI (XI (XO
    (XO (XO (XO XH)))))))))))))))))))))) :: [])))))))), (Alt ((Cls (((Npos
    (XI (XI (XO (XO (XO XH)))))), (Npos (XI (XI (XO (XO (XO
    XH))))))) :: (((Npos (XI (XI (XI (XI (XO XH)))))), (Npos (XI (XI (XI (XI
    (XO XH))))))) :: (((Npos (XI (XI (XI (XI (XI XH)))))), (Npos (XI (XI (XI
    (XI (XI XH))))))) :: [])))), EndText)))))))

(** val g_startsWithAlphabetPattern : regex **)

let g_startsWithAlphabetPattern =
  Cat (BeginText, (Cls (((Npos (XI (XO (XO (XO (XO (XO XH))))))), (Npos (XO
    (XI (XO (XI (XI (XO XH)))))))) :: (((Npos (XI (XO (XO (XO (XO (XI
    XH))))))), (Npos (XO (XI (XO (XI (XI (XI XH)))))))) :: []))))

(** val g_startsWithFullySpecifiedSchemePattern : regex **)

let g_startsWithFullySpecifiedSchemePattern =
  Cat (BeginText, (Cat ((Cls (((Npos (XI (XO (XO (XO (XO (XO XH))))))), (Npos
    (XO (XI (XO (XI (XI (XO XH)))))))) :: (((Npos (XI (XO (XO (XO (XO (XI
    XH))))))), (Npos (XO (XI (XO (XI (XI (XI XH)))))))) :: []))), (Cat ((Star
    (Cls (((Npos (XI (XI (XO (XI (XO XH)))))), (Npos (XI (XI (XO (XI (XO
    XH))))))) :: (((Npos (XI (XO (XI (XI (XO XH)))))), (Npos (XO (XI (XI (XI
    (XO XH))))))) :: (((Npos (XO (XO (XO (XO (XI XH)))))), (Npos (XI (XO (XO
    (XI (XI XH))))))) :: (((Npos (XI (XO (XO (XO (XO (XO XH))))))), (Npos (XO
    (XI (XO (XI (XI (XO XH)))))))) :: (((Npos (XI (XO (XO (XO (XO (XI
    XH))))))), (Npos (XO (XI (XO (XI (XI (XI XH)))))))) :: []))))))), (Cls
    (((Npos (XO (XI (XO (XI (XI XH)))))), (Npos (XO (XI (XO (XI (XI
    XH))))))) :: [])))))))

(** val g_trustedResourceURLFormatMarkerPattern : regex **)

let g_trustedResourceURLFormatMarkerPattern =
  Cat ((Cat ((Cls (((Npos (XI (XO (XI (XO (XO XH)))))), (Npos (XI (XO (XI (XO
    (XO XH))))))) :: [])), (Cls (((Npos (XI (XI (XO (XI (XI (XI XH))))))),
    (Npos (XI (XI (XO (XI (XI (XI XH)))))))) :: [])))), (Cat
    ((plus (Cls (((Npos (XO (XO (XO (XO (XI XH)))))), (Npos (XI (XO (XO (XI
       (XI XH))))))) :: (((Npos (XI (XO (XO (XO (XO (XO XH))))))), (Npos (XO
       (XI (XO (XI (XI (XO XH)))))))) :: (((Npos (XI (XI (XI (XI (XI (XO
       XH))))))), (Npos (XI (XI (XI (XI (XI (XO XH)))))))) :: (((Npos (XI (XO
       (XO (XO (XO (XI XH))))))), (Npos (XO (XI (XO (XI (XI (XI
       XH)))))))) :: [])))))), (Cls (((Npos (XI (XO (XI (XI (XI (XI
    XH))))))), (Npos (XI (XO (XI (XI (XI (XI XH)))))))) :: [])))))

(** val g_urlDoubleDotSegmentPattern : regex **)

let g_urlDoubleDotSegmentPattern =
  Cat ((Alt ((Cls (((Npos (XO (XI (XI (XI (XO XH)))))), (Npos (XO (XI (XI (XI
    (XO XH))))))) :: [])), (Cat ((Cls (((Npos (XI (XO (XI (XO (XO XH)))))),
    (Npos (XI (XO (XI (XO (XO XH))))))) :: [])), (Cat ((Cls (((Npos (XO (XI
    (XO (XO (XI XH)))))), (Npos (XO (XI (XO (XO (XI XH))))))) :: [])), (Cls
    (((Npos (XI (XO (XI (XO (XO (XO XH))))))), (Npos (XI (XO (XI (XO (XO (XO
    XH)))))))) :: (((Npos (XI (XO (XI (XO (XO (XI XH))))))), (Npos (XI (XO
    (XI (XO (XO (XI XH)))))))) :: []))))))))), (Alt ((Cls (((Npos (XO (XI (XI
    (XI (XO XH)))))), (Npos (XO (XI (XI (XI (XO XH))))))) :: [])), (Cat ((Cls
    (((Npos (XI (XO (XI (XO (XO XH)))))), (Npos (XI (XO (XI (XO (XO
    XH))))))) :: [])), (Cat ((Cls (((Npos (XO (XI (XO (XO (XI XH)))))), (Npos
    (XO (XI (XO (XO (XI XH))))))) :: [])), (Cls (((Npos (XI (XO (XI (XO (XO
    (XO XH))))))), (Npos (XI (XO (XI (XO (XO (XO XH)))))))) :: (((Npos (XI
    (XO (XI (XO (XO (XI XH))))))), (Npos (XI (XO (XI (XO (XO (XI
    XH)))))))) :: []))))))))))

(** val all_regexes : (bytes * regex) list **)

let all_regexes =
  ((b (String ((Ascii (true, true, false, false, false, true, true, false)),
     (String ((Ascii (true, true, true, true, false, true, true, false)),
     (String ((Ascii (false, true, true, true, false, true, true, false)),
     (String ((Ascii (false, false, true, false, true, true, true, false)),
     (String ((Ascii (true, false, false, false, false, true, true, false)),
     (String ((Ascii (true, false, false, true, false, true, true, false)),
     (String ((Ascii (false, true, true, true, false, true, true, false)),
     (String ((Ascii (true, true, false, false, true, true, true, false)),
     (String ((Ascii (true, true, true, false, true, false, true, false)),
     (String ((Ascii (false, false, false, true, false, true, true, false)),
     (String ((Ascii (true, false, false, true, false, true, true, false)),
     (String ((Ascii (false, false, true, false, true, true, true, false)),
     (String ((Ascii (true, false, true, false, false, true, true, false)),
     (String ((Ascii (true, true, false, false, true, true, true, false)),
     (String ((Ascii (false, false, false, false, true, true, true, false)),
     (String ((Ascii (true, false, false, false, false, true, true, false)),
     (String ((Ascii (true, true, false, false, false, true, true, false)),
     (String ((Ascii (true, false, true, false, false, true, true, false)),
     (String ((Ascii (true, true, true, true, false, false, true, false)),
     (String ((Ascii (false, true, false, false, true, true, true, false)),
     (String ((Ascii (true, true, false, false, false, false, true, false)),
     (String ((Ascii (true, true, true, true, false, true, true, false)),
     (String ((Ascii (false, true, true, true, false, true, true, false)),
     (String ((Ascii (false, false, true, false, true, true, true, false)),
     (String ((Ascii (false, true, false, false, true, true, true, false)),
     (String ((Ascii (true, true, true, true, false, true, true, false)),
     (String ((Ascii (false, false, true, true, false, true, true, false)),
     (String ((Ascii (false, false, false, false, true, false, true, false)),
     (String ((Ascii (true, false, false, false, false, true, true, false)),
     (String ((Ascii (false, false, true, false, true, true, true, false)),
     (String ((Ascii (false, false, true, false, true, true, true, false)),
     (String ((Ascii (true, false, true, false, false, true, true, false)),
     (String ((Ascii (false, true, false, false, true, true, true, false)),
     (String ((Ascii (false, true, true, true, false, true, true, false)),
     EmptyString))))))))))))))))))))))))))))))))))))))))))))))))))))))))))))))))))))),
    g_containsWhitespaceOrControlPattern) :: (((b (String ((Ascii (true,
                                                 true, false, false, false,
                                                 true, true, false)), (String
                                                 ((Ascii (true, true, false,
                                                 false, true, true, true,
                                                 false)), (String ((Ascii
                                                 (true, true, false, false,
                                                 true, true, true, false)),
                                                 (String ((Ascii (true, true,
                                                 false, false, true, false,
                                                 true, false)), (String
                                                 ((Ascii (false, false, true,
                                                 false, true, true, true,
                                                 false)), (String ((Ascii
                                                 (false, true, false, false,
                                                 true, true, true, false)),
                                                 (String ((Ascii (true,
                                                 false, false, true, false,
                                                 true, true, false)), (String
                                                 ((Ascii (false, true, true,
                                                 true, false, true, true,
                                                 false)), (String ((Ascii
                                                 (true, true, true, false,
                                                 false, true, true, false)),
                                                 (String ((Ascii (false,
                                                 false, false, false, true,
                                                 false, true, false)),
                                                 (String ((Ascii (true,
                                                 false, false, false, false,
                                                 true, true, false)), (String
                                                 ((Ascii (false, false, true,
                                                 false, true, true, true,
                                                 false)), (String ((Ascii
                                                 (false, false, true, false,
                                                 true, true, true, false)),
                                                 (String ((Ascii (true,
                                                 false, true, false, false,
                                                 true, true, false)), (String
                                                 ((Ascii (false, true, false,
                                                 false, true, true, true,
                                                 false)), (String ((Ascii
                                                 (false, true, true, true,
                                                 false, true, true, false)),
                                                 EmptyString))))))))))))))))))))))))))))))))),
    g_cssStringPattern) :: (((b (String ((Ascii (false, false, true, false,
                               false, true, true, false)), (String ((Ascii
                               (true, false, false, false, false, true, true,
                               false)), (String ((Ascii (false, false, true,
                               false, true, true, true, false)), (String
                               ((Ascii (true, false, false, false, false,
                               true, true, false)), (String ((Ascii (true,
                               false, false, false, false, false, true,
                               false)), (String ((Ascii (false, false, true,
                               false, true, true, true, false)), (String
                               ((Ascii (false, false, true, false, true,
                               true, true, false)), (String ((Ascii (false,
                               true, false, false, true, true, true, false)),
                               (String ((Ascii (true, false, false, true,
                               false, true, true, false)), (String ((Ascii
                               (false, true, false, false, false, true, true,
                               false)), (String ((Ascii (true, false, true,
                               false, true, true, true, false)), (String
                               ((Ascii (false, false, true, false, true,
                               true, true, false)), (String ((Ascii (true,
                               false, true, false, false, true, true,
                               false)), (String ((Ascii (false, true, true,
                               true, false, false, true, false)), (String
                               ((Ascii (true, false, false, false, false,
                               true, true, false)), (String ((Ascii (true,
                               false, true, true, false, true, true, false)),
                               (String ((Ascii (true, false, true, false,
                               false, true, true, false)), (String ((Ascii
                               (false, false, false, false, true, false,
                               true, false)), (String ((Ascii (true, false,
                               false, false, false, true, true, false)),
                               (String ((Ascii (false, false, true, false,
                               true, true, true, false)), (String ((Ascii
                               (false, false, true, false, true, true, true,
                               false)), (String ((Ascii (true, false, true,
                               false, false, true, true, false)), (String
                               ((Ascii (false, true, false, false, true,
                               true, true, false)), (String ((Ascii (false,
                               true, true, true, false, true, true, false)),
                               EmptyString))))))))))))))))))))))))))))))))))))))))))))))))),
    g_dataAttributeNamePattern) :: (((b (String ((Ascii (true, false, true,
                                       false, false, true, true, false)),
                                       (String ((Ascii (false, true, true,
                                       true, false, true, true, false)),
                                       (String ((Ascii (false, false, true,
                                       false, false, true, true, false)),
                                       (String ((Ascii (true, true, false,
                                       false, true, true, true, false)),
                                       (String ((Ascii (true, true, true,
                                       false, true, false, true, false)),
                                       (String ((Ascii (true, false, false,
                                       true, false, true, true, false)),
                                       (String ((Ascii (false, false, true,
                                       false, true, true, true, false)),
                                       (String ((Ascii (false, false, false,
                                       true, false, true, true, false)),
                                       (String ((Ascii (true, true, false,
                                       false, false, false, true, false)),
                                       (String ((Ascii (false, false, false,
                                       true, false, true, true, false)),
                                       (String ((Ascii (true, false, false,
                                       false, false, true, true, false)),
                                       (String ((Ascii (false, true, false,
                                       false, true, true, true, false)),
                                       (String ((Ascii (false, true, false,
                                       false, true, false, true, false)),
                                       (String ((Ascii (true, false, true,
                                       false, false, true, true, false)),
                                       (String ((Ascii (false, true, true,
                                       false, false, true, true, false)),
                                       (String ((Ascii (false, false, false,
                                       false, true, false, true, false)),
                                       (String ((Ascii (false, true, false,
                                       false, true, true, true, false)),
                                       (String ((Ascii (true, false, true,
                                       false, false, true, true, false)),
                                       (String ((Ascii (false, true, true,
                                       false, false, true, true, false)),
                                       (String ((Ascii (true, false, false,
                                       true, false, true, true, false)),
                                       (String ((Ascii (false, false, false,
                                       true, true, true, true, false)),
                                       (String ((Ascii (false, false, false,
                                       false, true, false, true, false)),
                                       (String ((Ascii (true, false, false,
                                       false, false, true, true, false)),
                                       (String ((Ascii (false, false, true,
                                       false, true, true, true, false)),
                                       (String ((Ascii (false, false, true,
                                       false, true, true, true, false)),
                                       (String ((Ascii (true, false, true,
                                       false, false, true, true, false)),
                                       (String ((Ascii (false, true, false,
                                       false, true, true, true, false)),
                                       (String ((Ascii (false, true, true,
                                       true, false, true, true, false)),
                                       EmptyString))))))))))))))))))))))))))))))))))))))))))))))))))))))))),
    g_endsWithCharRefPrefixPattern) :: (((b (String ((Ascii (true, false,
                                           true, false, false, true, true,
                                           false)), (String ((Ascii (false,
                                           true, true, true, false, true,
                                           true, false)), (String ((Ascii
                                           (false, false, true, false, false,
                                           true, true, false)), (String
                                           ((Ascii (true, true, false, false,
                                           true, true, true, false)), (String
                                           ((Ascii (true, true, true, false,
                                           true, false, true, false)),
                                           (String ((Ascii (true, false,
                                           false, true, false, true, true,
                                           false)), (String ((Ascii (false,
                                           false, true, false, true, true,
                                           true, false)), (String ((Ascii
                                           (false, false, false, true, false,
                                           true, true, false)), (String
                                           ((Ascii (false, false, false,
                                           false, true, false, true, false)),
                                           (String ((Ascii (true, false,
                                           true, false, false, true, true,
                                           false)), (String ((Ascii (false,
                                           true, false, false, true, true,
                                           true, false)), (String ((Ascii
                                           (true, true, false, false, false,
                                           true, true, false)), (String
                                           ((Ascii (true, false, true, false,
                                           false, true, true, false)),
                                           (String ((Ascii (false, true,
                                           true, true, false, true, true,
                                           false)), (String ((Ascii (false,
                                           false, true, false, true, true,
                                           true, false)), (String ((Ascii
                                           (true, false, true, false, false,
                                           false, true, false)), (String
                                           ((Ascii (false, true, true, true,
                                           false, true, true, false)),
                                           (String ((Ascii (true, true,
                                           false, false, false, true, true,
                                           false)), (String ((Ascii (true,
                                           true, true, true, false, true,
                                           true, false)), (String ((Ascii
                                           (false, false, true, false, false,
                                           true, true, false)), (String
                                           ((Ascii (true, false, false, true,
                                           false, true, true, false)),
                                           (String ((Ascii (false, true,
                                           true, true, false, true, true,
                                           false)), (String ((Ascii (true,
                                           true, true, false, false, true,
                                           true, false)), (String ((Ascii
                                           (false, false, false, false, true,
                                           false, true, false)), (String
                                           ((Ascii (false, true, false,
                                           false, true, true, true, false)),
                                           (String ((Ascii (true, false,
                                           true, false, false, true, true,
                                           false)), (String ((Ascii (false,
                                           true, true, false, false, true,
                                           true, false)), (String ((Ascii
                                           (true, false, false, true, false,
                                           true, true, false)), (String
                                           ((Ascii (false, false, false,
                                           true, true, true, true, false)),
                                           (String ((Ascii (false, false,
                                           false, false, true, false, true,
                                           false)), (String ((Ascii (true,
                                           false, false, false, false, true,
                                           true, false)), (String ((Ascii
                                           (false, false, true, false, true,
                                           true, true, false)), (String
                                           ((Ascii (false, false, true,
                                           false, true, true, true, false)),
                                           (String ((Ascii (true, false,
                                           true, false, false, true, true,
                                           false)), (String ((Ascii (false,
                                           true, false, false, true, true,
                                           true, false)), (String ((Ascii
                                           (false, true, true, true, false,
                                           true, true, false)),
                                           EmptyString))))))))))))))))))))))))))))))))))))))))))))))))))))))))))))))))))))))))),
    g_endsWithPercentEncodingPrefixPattern) :: (((b (String ((Ascii (true,
                                                   false, false, true, false,
                                                   true, true, false)),
                                                   (String ((Ascii (false,
                                                   false, true, false, false,
                                                   true, true, false)),
                                                   (String ((Ascii (true,
                                                   false, true, false, false,
                                                   true, true, false)),
                                                   (String ((Ascii (false,
                                                   true, true, true, false,
                                                   true, true, false)),
                                                   (String ((Ascii (false,
                                                   false, true, false, true,
                                                   true, true, false)),
                                                   (String ((Ascii (true,
                                                   false, false, true, false,
                                                   true, true, false)),
                                                   (String ((Ascii (false,
                                                   true, true, false, false,
                                                   true, true, false)),
                                                   (String ((Ascii (true,
                                                   false, false, true, false,
                                                   true, true, false)),
                                                   (String ((Ascii (true,
                                                   false, true, false, false,
                                                   true, true, false)),
                                                   (String ((Ascii (false,
                                                   true, false, false, true,
                                                   true, true, false)),
                                                   (String ((Ascii (false,
                                                   false, false, false, true,
                                                   false, true, false)),
                                                   (String ((Ascii (true,
                                                   false, false, false,
                                                   false, true, true,
                                                   false)), (String ((Ascii
                                                   (false, false, true,
                                                   false, true, true, true,
                                                   false)), (String ((Ascii
                                                   (false, false, true,
                                                   false, true, true, true,
                                                   false)), (String ((Ascii
                                                   (true, false, true, false,
                                                   false, true, true,
                                                   false)), (String ((Ascii
                                                   (false, true, false,
                                                   false, true, true, true,
                                                   false)), (String ((Ascii
                                                   (false, true, true, true,
                                                   false, true, true,
                                                   false)),
                                                   EmptyString))))))))))))))))))))))))))))))))))),
    g_identifierPattern) :: (((b (String ((Ascii (true, false, false, true,
                                false, true, true, false)), (String ((Ascii
                                (false, true, true, true, false, true, true,
                                false)), (String ((Ascii (false, true, true,
                                false, true, true, true, false)), (String
                                ((Ascii (true, false, false, false, false,
                                true, true, false)), (String ((Ascii (false,
                                false, true, true, false, true, true,
                                false)), (String ((Ascii (true, false, false,
                                true, false, true, true, false)), (String
                                ((Ascii (false, false, true, false, false,
                                true, true, false)), (String ((Ascii (true,
                                true, false, false, false, false, true,
                                false)), (String ((Ascii (true, true, false,
                                false, true, false, true, false)), (String
                                ((Ascii (true, true, false, false, true,
                                false, true, false)), (String ((Ascii (true,
                                true, false, false, true, false, true,
                                false)), (String ((Ascii (true, false, true,
                                false, false, true, true, false)), (String
                                ((Ascii (false, false, true, true, false,
                                true, true, false)), (String ((Ascii (true,
                                false, true, false, false, true, true,
                                false)), (String ((Ascii (true, true, false,
                                false, false, true, true, false)), (String
                                ((Ascii (false, false, true, false, true,
                                true, true, false)), (String ((Ascii (true,
                                true, true, true, false, true, true, false)),
                                (String ((Ascii (false, true, false, false,
                                true, true, true, false)), (String ((Ascii
                                (false, true, false, false, true, false,
                                true, false)), (String ((Ascii (true, false,
                                true, false, true, true, true, false)),
                                (String ((Ascii (false, true, true, true,
                                false, true, true, false)), (String ((Ascii
                                (true, false, true, false, false, true, true,
                                false)),
                                EmptyString))))))))))))))))))))))))))))))))))))))))))))),
    g_invalidCSSSelectorRune) :: (((b (String ((Ascii (false, true, false,
                                     true, false, true, true, false)),
                                     (String ((Ascii (true, true, false,
                                     false, true, true, true, false)),
                                     (String ((Ascii (true, false, false,
                                     true, false, false, true, false)),
                                     (String ((Ascii (false, false, true,
                                     false, false, true, true, false)),
                                     (String ((Ascii (true, false, true,
                                     false, false, true, true, false)),
                                     (String ((Ascii (false, true, true,
                                     true, false, true, true, false)),
                                     (String ((Ascii (false, false, true,
                                     false, true, true, true, false)),
                                     (String ((Ascii (true, false, false,
                                     true, false, true, true, false)),
                                     (String ((Ascii (false, true, true,
                                     false, false, true, true, false)),
                                     (String ((Ascii (true, false, false,
                                     true, false, true, true, false)),
                                     (String ((Ascii (true, false, true,
                                     false, false, true, true, false)),
                                     (String ((Ascii (false, true, false,
                                     false, true, true, true, false)),
                                     (String ((Ascii (false, false, false,
                                     false, true, false, true, false)),
                                     (String ((Ascii (true, false, false,
                                     false, false, true, true, false)),
                                     (String ((Ascii (false, false, true,
                                     false, true, true, true, false)),
                                     (String ((Ascii (false, false, true,
                                     false, true, true, true, false)),
                                     (String ((Ascii (true, false, true,
                                     false, false, true, true, false)),
                                     (String ((Ascii (false, true, false,
                                     false, true, true, true, false)),
                                     (String ((Ascii (false, true, true,
                                     true, false, true, true, false)),
                                     EmptyString))))))))))))))))))))))))))))))))))))))),
    g_jsIdentifierPattern) :: (((b (String ((Ascii (true, true, true, true,
                                  false, true, true, false)), (String ((Ascii
                                  (false, true, true, true, false, true,
                                  true, false)), (String ((Ascii (false,
                                  false, true, true, false, true, true,
                                  false)), (String ((Ascii (true, false,
                                  false, true, true, true, true, false)),
                                  (String ((Ascii (true, false, false, false,
                                  false, false, true, false)), (String
                                  ((Ascii (false, false, true, true, false,
                                  true, true, false)), (String ((Ascii
                                  (false, false, false, false, true, true,
                                  true, false)), (String ((Ascii (false,
                                  false, false, true, false, true, true,
                                  false)), (String ((Ascii (true, false,
                                  false, false, false, true, true, false)),
                                  (String ((Ascii (false, true, true, true,
                                  false, true, true, false)), (String ((Ascii
                                  (true, false, true, false, true, true,
                                  true, false)), (String ((Ascii (true,
                                  false, true, true, false, true, true,
                                  false)), (String ((Ascii (true, false,
                                  true, false, false, true, true, false)),
                                  (String ((Ascii (false, true, false, false,
                                  true, true, true, false)), (String ((Ascii
                                  (true, false, false, true, false, true,
                                  true, false)), (String ((Ascii (true, true,
                                  false, false, false, true, true, false)),
                                  (String ((Ascii (true, true, false, false,
                                  true, true, true, false)), (String ((Ascii
                                  (true, true, true, true, false, false,
                                  true, false)), (String ((Ascii (false,
                                  true, false, false, true, true, true,
                                  false)), (String ((Ascii (false, false,
                                  false, true, false, false, true, false)),
                                  (String ((Ascii (true, false, false, true,
                                  true, true, true, false)), (String ((Ascii
                                  (false, false, false, false, true, true,
                                  true, false)), (String ((Ascii (false,
                                  false, false, true, false, true, true,
                                  false)), (String ((Ascii (true, false,
                                  true, false, false, true, true, false)),
                                  (String ((Ascii (false, true, true, true,
                                  false, true, true, false)), (String ((Ascii
                                  (false, false, false, false, true, false,
                                  true, false)), (String ((Ascii (true,
                                  false, false, false, false, true, true,
                                  false)), (String ((Ascii (false, false,
                                  true, false, true, true, true, false)),
                                  (String ((Ascii (false, false, true, false,
                                  true, true, true, false)), (String ((Ascii
                                  (true, false, true, false, false, true,
                                  true, false)), (String ((Ascii (false,
                                  true, false, false, true, true, true,
                                  false)), (String ((Ascii (false, true,
                                  true, true, false, true, true, false)),
                                  EmptyString))))))))))))))))))))))))))))))))))))))))))))))))))))))))))))))))),
    g_onlyAlphanumericsOrHyphenPattern) :: (((b (String ((Ascii (true, true,
                                               false, false, true, true,
                                               true, false)), (String ((Ascii
                                               (true, false, false, false,
                                               false, true, true, false)),
                                               (String ((Ascii (false, true,
                                               true, false, false, true,
                                               true, false)), (String ((Ascii
                                               (true, false, true, false,
                                               false, true, true, false)),
                                               (String ((Ascii (true, false,
                                               true, false, false, false,
                                               true, false)), (String ((Ascii
                                               (false, true, true, true,
                                               false, true, true, false)),
                                               (String ((Ascii (true, false,
                                               true, false, true, true, true,
                                               false)), (String ((Ascii
                                               (true, false, true, true,
                                               false, true, true, false)),
                                               (String ((Ascii (false, false,
                                               false, false, true, false,
                                               true, false)), (String ((Ascii
                                               (false, true, false, false,
                                               true, true, true, false)),
                                               (String ((Ascii (true, true,
                                               true, true, false, true, true,
                                               false)), (String ((Ascii
                                               (false, false, false, false,
                                               true, true, true, false)),
                                               (String ((Ascii (true, false,
                                               true, false, false, true,
                                               true, false)), (String ((Ascii
                                               (false, true, false, false,
                                               true, true, true, false)),
                                               (String ((Ascii (false, false,
                                               true, false, true, true, true,
                                               false)), (String ((Ascii
                                               (true, false, false, true,
                                               true, true, true, false)),
                                               (String ((Ascii (false, true,
                                               true, false, true, false,
                                               true, false)), (String ((Ascii
                                               (true, false, false, false,
                                               false, true, true, false)),
                                               (String ((Ascii (false, false,
                                               true, true, false, true, true,
                                               false)), (String ((Ascii
                                               (true, false, true, false,
                                               true, true, true, false)),
                                               (String ((Ascii (true, false,
                                               true, false, false, true,
                                               true, false)), (String ((Ascii
                                               (false, false, false, false,
                                               true, false, true, false)),
                                               (String ((Ascii (true, false,
                                               false, false, false, true,
                                               true, false)), (String ((Ascii
                                               (false, false, true, false,
                                               true, true, true, false)),
                                               (String ((Ascii (false, false,
                                               true, false, true, true, true,
                                               false)), (String ((Ascii
                                               (true, false, true, false,
                                               false, true, true, false)),
                                               (String ((Ascii (false, true,
                                               false, false, true, true,
                                               true, false)), (String ((Ascii
                                               (false, true, true, true,
                                               false, true, true, false)),
                                               EmptyString))))))))))))))))))))))))))))))))))))))))))))))))))))))))),
    g_safeEnumPropertyValuePattern) :: (((b (String ((Ascii (true, true,
                                           false, false, true, true, true,
                                           false)), (String ((Ascii (true,
                                           false, false, false, false, true,
                                           true, false)), (String ((Ascii
                                           (false, true, true, false, false,
                                           true, true, false)), (String
                                           ((Ascii (true, false, true, false,
                                           false, true, true, false)),
                                           (String ((Ascii (false, true,
                                           false, false, true, false, true,
                                           false)), (String ((Ascii (true,
                                           false, true, false, false, true,
                                           true, false)), (String ((Ascii
                                           (true, true, true, false, false,
                                           true, true, false)), (String
                                           ((Ascii (true, false, true, false,
                                           true, true, true, false)), (String
                                           ((Ascii (false, false, true, true,
                                           false, true, true, false)),
                                           (String ((Ascii (true, false,
                                           false, false, false, true, true,
                                           false)), (String ((Ascii (false,
                                           true, false, false, true, true,
                                           true, false)), (String ((Ascii
                                           (false, false, false, false, true,
                                           false, true, false)), (String
                                           ((Ascii (false, true, false,
                                           false, true, true, true, false)),
                                           (String ((Ascii (true, true, true,
                                           true, false, true, true, false)),
                                           (String ((Ascii (false, false,
                                           false, false, true, true, true,
                                           false)), (String ((Ascii (true,
                                           false, true, false, false, true,
                                           true, false)), (String ((Ascii
                                           (false, true, false, false, true,
                                           true, true, false)), (String
                                           ((Ascii (false, false, true,
                                           false, true, true, true, false)),
                                           (String ((Ascii (true, false,
                                           false, true, true, true, true,
                                           false)), (String ((Ascii (false,
                                           true, true, false, true, false,
                                           true, false)), (String ((Ascii
                                           (true, false, false, false, false,
                                           true, true, false)), (String
                                           ((Ascii (false, false, true, true,
                                           false, true, true, false)),
                                           (String ((Ascii (true, false,
                                           true, false, true, true, true,
                                           false)), (String ((Ascii (true,
                                           false, true, false, false, true,
                                           true, false)), (String ((Ascii
                                           (false, false, false, false, true,
                                           false, true, false)), (String
                                           ((Ascii (true, false, false,
                                           false, false, true, true, false)),
                                           (String ((Ascii (false, false,
                                           true, false, true, true, true,
                                           false)), (String ((Ascii (false,
                                           false, true, false, true, true,
                                           true, false)), (String ((Ascii
                                           (true, false, true, false, false,
                                           true, true, false)), (String
                                           ((Ascii (false, true, false,
                                           false, true, true, true, false)),
                                           (String ((Ascii (false, true,
                                           true, true, false, true, true,
                                           false)),
                                           EmptyString))))))))))))))))))))))))))))))))))))))))))))))))))))))))))))))),
    g_safeRegularPropertyValuePattern) :: (((b (String ((Ascii (true, true,
                                              false, false, true, true, true,
                                              false)), (String ((Ascii (true,
                                              false, false, false, false,
                                              true, true, false)), (String
                                              ((Ascii (false, true, true,
                                              false, false, true, true,
                                              false)), (String ((Ascii (true,
                                              false, true, false, false,
                                              true, true, false)), (String
                                              ((Ascii (false, false, true,
                                              false, true, false, true,
                                              false)), (String ((Ascii
                                              (false, true, false, false,
                                              true, true, true, false)),
                                              (String ((Ascii (true, false,
                                              true, false, true, true, true,
                                              false)), (String ((Ascii (true,
                                              true, false, false, true, true,
                                              true, false)), (String ((Ascii
                                              (false, false, true, false,
                                              true, true, true, false)),
                                              (String ((Ascii (true, false,
                                              true, false, false, true, true,
                                              false)), (String ((Ascii
                                              (false, false, true, false,
                                              false, true, true, false)),
                                              (String ((Ascii (false, true,
                                              false, false, true, false,
                                              true, false)), (String ((Ascii
                                              (true, false, true, false,
                                              false, true, true, false)),
                                              (String ((Ascii (true, true,
                                              false, false, true, true, true,
                                              false)), (String ((Ascii (true,
                                              true, true, true, false, true,
                                              true, false)), (String ((Ascii
                                              (true, false, true, false,
                                              true, true, true, false)),
                                              (String ((Ascii (false, true,
                                              false, false, true, true, true,
                                              false)), (String ((Ascii (true,
                                              true, false, false, false,
                                              true, true, false)), (String
                                              ((Ascii (true, false, true,
                                              false, false, true, true,
                                              false)), (String ((Ascii (true,
                                              false, true, false, true,
                                              false, true, false)), (String
                                              ((Ascii (false, true, false,
                                              false, true, false, true,
                                              false)), (String ((Ascii
                                              (false, false, true, true,
                                              false, false, true, false)),
                                              (String ((Ascii (false, false,
                                              false, false, true, false,
                                              true, false)), (String ((Ascii
                                              (false, true, false, false,
                                              true, true, true, false)),
                                              (String ((Ascii (true, false,
                                              true, false, false, true, true,
                                              false)), (String ((Ascii
                                              (false, true, true, false,
                                              false, true, true, false)),
                                              (String ((Ascii (true, false,
                                              false, true, false, true, true,
                                              false)), (String ((Ascii
                                              (false, false, false, true,
                                              true, true, true, false)),
                                              (String ((Ascii (false, false,
                                              false, false, true, false,
                                              true, false)), (String ((Ascii
                                              (true, false, false, false,
                                              false, true, true, false)),
                                              (String ((Ascii (false, false,
                                              true, false, true, true, true,
                                              false)), (String ((Ascii
                                              (false, false, true, false,
                                              true, true, true, false)),
                                              (String ((Ascii (true, false,
                                              true, false, false, true, true,
                                              false)), (String ((Ascii
                                              (false, true, false, false,
                                              true, true, true, false)),
                                              (String ((Ascii (false, true,
                                              true, true, false, true, true,
                                              false)),
                                              EmptyString))))))))))))))))))))))))))))))))))))))))))))))))))))))))))))))))))))))),
    g_safeTrustedResourceURLPrefixPattern) :: (((b (String ((Ascii (true,
                                                  true, false, false, true,
                                                  true, true, false)),
                                                  (String ((Ascii (true,
                                                  false, false, false, false,
                                                  true, true, false)),
                                                  (String ((Ascii (false,
                                                  true, true, false, false,
                                                  true, true, false)),
                                                  (String ((Ascii (true,
                                                  false, true, false, false,
                                                  true, true, false)),
                                                  (String ((Ascii (true,
                                                  false, true, false, true,
                                                  false, true, false)),
                                                  (String ((Ascii (false,
                                                  true, false, false, true,
                                                  false, true, false)),
                                                  (String ((Ascii (false,
                                                  false, true, true, false,
                                                  false, true, false)),
                                                  (String ((Ascii (false,
                                                  false, false, false, true,
                                                  false, true, false)),
                                                  (String ((Ascii (true,
                                                  false, false, false, false,
                                                  true, true, false)),
                                                  (String ((Ascii (false,
                                                  false, true, false, true,
                                                  true, true, false)),
                                                  (String ((Ascii (false,
                                                  false, true, false, true,
                                                  true, true, false)),
                                                  (String ((Ascii (true,
                                                  false, true, false, false,
                                                  true, true, false)),
                                                  (String ((Ascii (false,
                                                  true, false, false, true,
                                                  true, true, false)),
                                                  (String ((Ascii (false,
                                                  true, true, true, false,
                                                  true, true, false)),
                                                  EmptyString))))))))))))))))))))))))))))),
    g_safeURLPattern) :: (((b (String ((Ascii (true, true, false, false,
                             true, true, true, false)), (String ((Ascii
                             (false, false, true, false, true, true, true,
                             false)), (String ((Ascii (true, false, false,
                             false, false, true, true, false)), (String
                             ((Ascii (false, true, false, false, true, true,
                             true, false)), (String ((Ascii (false, false,
                             true, false, true, true, true, false)), (String
                             ((Ascii (true, true, false, false, true, true,
                             true, false)), (String ((Ascii (true, true,
                             true, false, true, false, true, false)), (String
                             ((Ascii (true, false, false, true, false, true,
                             true, false)), (String ((Ascii (false, false,
                             true, false, true, true, true, false)), (String
                             ((Ascii (false, false, false, true, false, true,
                             true, false)), (String ((Ascii (true, false,
                             false, false, false, false, true, false)),
                             (String ((Ascii (false, false, true, true,
                             false, true, true, false)), (String ((Ascii
                             (false, false, false, false, true, true, true,
                             false)), (String ((Ascii (false, false, false,
                             true, false, true, true, false)), (String
                             ((Ascii (true, false, false, false, false, true,
                             true, false)), (String ((Ascii (false, true,
                             false, false, false, true, true, false)),
                             (String ((Ascii (true, false, true, false,
                             false, true, true, false)), (String ((Ascii
                             (false, false, true, false, true, true, true,
                             false)), (String ((Ascii (false, false, false,
                             false, true, false, true, false)), (String
                             ((Ascii (true, false, false, false, false, true,
                             true, false)), (String ((Ascii (false, false,
                             true, false, true, true, true, false)), (String
                             ((Ascii (false, false, true, false, true, true,
                             true, false)), (String ((Ascii (true, false,
                             true, false, false, true, true, false)), (String
                             ((Ascii (false, true, false, false, true, true,
                             true, false)), (String ((Ascii (false, true,
                             true, true, false, true, true, false)),
                             EmptyString))))))))))))))))))))))))))))))))))))))))))))))))))),
    g_startsWithAlphabetPattern) :: (((b (String ((Ascii (true, true, false,
                                        false, true, true, true, false)),
                                        (String ((Ascii (false, false, true,
                                        false, true, true, true, false)),
                                        (String ((Ascii (true, false, false,
                                        false, false, true, true, false)),
                                        (String ((Ascii (false, true, false,
                                        false, true, true, true, false)),
                                        (String ((Ascii (false, false, true,
                                        false, true, true, true, false)),
                                        (String ((Ascii (true, true, false,
                                        false, true, true, true, false)),
                                        (String ((Ascii (true, true, true,
                                        false, true, false, true, false)),
                                        (String ((Ascii (true, false, false,
                                        true, false, true, true, false)),
                                        (String ((Ascii (false, false, true,
                                        false, true, true, true, false)),
                                        (String ((Ascii (false, false, false,
                                        true, false, true, true, false)),
                                        (String ((Ascii (false, true, true,
                                        false, false, false, true, false)),
                                        (String ((Ascii (true, false, true,
                                        false, true, true, true, false)),
                                        (String ((Ascii (false, false, true,
                                        true, false, true, true, false)),
                                        (String ((Ascii (false, false, true,
                                        true, false, true, true, false)),
                                        (String ((Ascii (true, false, false,
                                        true, true, true, true, false)),
                                        (String ((Ascii (true, true, false,
                                        false, true, false, true, false)),
                                        (String ((Ascii (false, false, false,
                                        false, true, true, true, false)),
                                        (String ((Ascii (true, false, true,
                                        false, false, true, true, false)),
                                        (String ((Ascii (true, true, false,
                                        false, false, true, true, false)),
                                        (String ((Ascii (true, false, false,
                                        true, false, true, true, false)),
                                        (String ((Ascii (false, true, true,
                                        false, false, true, true, false)),
                                        (String ((Ascii (true, false, false,
                                        true, false, true, true, false)),
                                        (String ((Ascii (true, false, true,
                                        false, false, true, true, false)),
                                        (String ((Ascii (false, false, true,
                                        false, false, true, true, false)),
                                        (String ((Ascii (true, true, false,
                                        false, true, false, true, false)),
                                        (String ((Ascii (true, true, false,
                                        false, false, true, true, false)),
                                        (String ((Ascii (false, false, false,
                                        true, false, true, true, false)),
                                        (String ((Ascii (true, false, true,
                                        false, false, true, true, false)),
                                        (String ((Ascii (true, false, true,
                                        true, false, true, true, false)),
                                        (String ((Ascii (true, false, true,
                                        false, false, true, true, false)),
                                        (String ((Ascii (false, false, false,
                                        false, true, false, true, false)),
                                        (String ((Ascii (true, false, false,
                                        false, false, true, true, false)),
                                        (String ((Ascii (false, false, true,
                                        false, true, true, true, false)),
                                        (String ((Ascii (false, false, true,
                                        false, true, true, true, false)),
                                        (String ((Ascii (true, false, true,
                                        false, false, true, true, false)),
                                        (String ((Ascii (false, true, false,
                                        false, true, true, true, false)),
                                        (String ((Ascii (false, true, true,
                                        true, false, true, true, false)),
                                        EmptyString))))))))))))))))))))))))))))))))))))))))))))))))))))))))))))))))))))))))))),
    g_startsWithFullySpecifiedSchemePattern) :: (((b (String ((Ascii (false,
                                                    false, true, false, true,
                                                    true, true, false)),
                                                    (String ((Ascii (false,
                                                    true, false, false, true,
                                                    true, true, false)),
                                                    (String ((Ascii (true,
                                                    false, true, false, true,
                                                    true, true, false)),
                                                    (String ((Ascii (true,
                                                    true, false, false, true,
                                                    true, true, false)),
                                                    (String ((Ascii (false,
                                                    false, true, false, true,
                                                    true, true, false)),
                                                    (String ((Ascii (true,
                                                    false, true, false,
                                                    false, true, true,
                                                    false)), (String ((Ascii
                                                    (false, false, true,
                                                    false, false, true, true,
                                                    false)), (String ((Ascii
                                                    (false, true, false,
                                                    false, true, false, true,
                                                    false)), (String ((Ascii
                                                    (true, false, true,
                                                    false, false, true, true,
                                                    false)), (String ((Ascii
                                                    (true, true, false,
                                                    false, true, true, true,
                                                    false)), (String ((Ascii
                                                    (true, true, true, true,
                                                    false, true, true,
                                                    false)), (String ((Ascii
                                                    (true, false, true,
                                                    false, true, true, true,
                                                    false)), (String ((Ascii
                                                    (false, true, false,
                                                    false, true, true, true,
                                                    false)), (String ((Ascii
                                                    (true, true, false,
                                                    false, false, true, true,
                                                    false)), (String ((Ascii
                                                    (true, false, true,
                                                    false, false, true, true,
                                                    false)), (String ((Ascii
                                                    (true, false, true,
                                                    false, true, false, true,
                                                    false)), (String ((Ascii
                                                    (false, true, false,
                                                    false, true, false, true,
                                                    false)), (String ((Ascii
                                                    (false, false, true,
                                                    true, false, false, true,
                                                    false)), (String ((Ascii
                                                    (false, true, true,
                                                    false, false, false,
                                                    true, false)), (String
                                                    ((Ascii (true, true,
                                                    true, true, false, true,
                                                    true, false)), (String
                                                    ((Ascii (false, true,
                                                    false, false, true, true,
                                                    true, false)), (String
                                                    ((Ascii (true, false,
                                                    true, true, false, true,
                                                    true, false)), (String
                                                    ((Ascii (true, false,
                                                    false, false, false,
                                                    true, true, false)),
                                                    (String ((Ascii (false,
                                                    false, true, false, true,
                                                    true, true, false)),
                                                    (String ((Ascii (true,
                                                    false, true, true, false,
                                                    false, true, false)),
                                                    (String ((Ascii (true,
                                                    false, false, false,
                                                    false, true, true,
                                                    false)), (String ((Ascii
                                                    (false, true, false,
                                                    false, true, true, true,
                                                    false)), (String ((Ascii
                                                    (true, true, false, true,
                                                    false, true, true,
                                                    false)), (String ((Ascii
                                                    (true, false, true,
                                                    false, false, true, true,
                                                    false)), (String ((Ascii
                                                    (false, true, false,
                                                    false, true, true, true,
                                                    false)), (String ((Ascii
                                                    (false, false, false,
                                                    false, true, false, true,
                                                    false)), (String ((Ascii
                                                    (true, false, false,
                                                    false, false, true, true,
                                                    false)), (String ((Ascii
                                                    (false, false, true,
                                                    false, true, true, true,
                                                    false)), (String ((Ascii
                                                    (false, false, true,
                                                    false, true, true, true,
                                                    false)), (String ((Ascii
                                                    (true, false, true,
                                                    false, false, true, true,
                                                    false)), (String ((Ascii
                                                    (false, true, false,
                                                    false, true, true, true,
                                                    false)), (String ((Ascii
                                                    (false, true, true, true,
                                                    false, true, true,
                                                    false)),
                                                    EmptyString))))))))))))))))))))))))))))))))))))))))))))))))))))))))))))))))))))))))))),
    g_trustedResourceURLFormatMarkerPattern) :: (((b (String ((Ascii (true,
                                                    false, true, false, true,
                                                    true, true, false)),
                                                    (String ((Ascii (false,
                                                    true, false, false, true,
                                                    true, true, false)),
                                                    (String ((Ascii (false,
                                                    false, true, true, false,
                                                    true, true, false)),
                                                    (String ((Ascii (false,
                                                    false, true, false,
                                                    false, false, true,
                                                    false)), (String ((Ascii
                                                    (true, true, true, true,
                                                    false, true, true,
                                                    false)), (String ((Ascii
                                                    (true, false, true,
                                                    false, true, true, true,
                                                    false)), (String ((Ascii
                                                    (false, true, false,
                                                    false, false, true, true,
                                                    false)), (String ((Ascii
                                                    (false, false, true,
                                                    true, false, true, true,
                                                    false)), (String ((Ascii
                                                    (true, false, true,
                                                    false, false, true, true,
                                                    false)), (String ((Ascii
                                                    (false, false, true,
                                                    false, false, false,
                                                    true, false)), (String
                                                    ((Ascii (true, true,
                                                    true, true, false, true,
                                                    true, false)), (String
                                                    ((Ascii (false, false,
                                                    true, false, true, true,
                                                    true, false)), (String
                                                    ((Ascii (true, true,
                                                    false, false, true,
                                                    false, true, false)),
                                                    (String ((Ascii (true,
                                                    false, true, false,
                                                    false, true, true,
                                                    false)), (String ((Ascii
                                                    (true, true, true, false,
                                                    false, true, true,
                                                    false)), (String ((Ascii
                                                    (true, false, true, true,
                                                    false, true, true,
                                                    false)), (String ((Ascii
                                                    (true, false, true,
                                                    false, false, true, true,
                                                    false)), (String ((Ascii
                                                    (false, true, true, true,
                                                    false, true, true,
                                                    false)), (String ((Ascii
                                                    (false, false, true,
                                                    false, true, true, true,
                                                    false)), (String ((Ascii
                                                    (false, false, false,
                                                    false, true, false, true,
                                                    false)), (String ((Ascii
                                                    (true, false, false,
                                                    false, false, true, true,
                                                    false)), (String ((Ascii
                                                    (false, false, true,
                                                    false, true, true, true,
                                                    false)), (String ((Ascii
                                                    (false, false, true,
                                                    false, true, true, true,
                                                    false)), (String ((Ascii
                                                    (true, false, true,
                                                    false, false, true, true,
                                                    false)), (String ((Ascii
                                                    (false, true, false,
                                                    false, true, true, true,
                                                    false)), (String ((Ascii
                                                    (false, true, true, true,
                                                    false, true, true,
                                                    false)),
                                                    EmptyString))))))))))))))))))))))))))))))))))))))))))))))))))))),
    g_urlDoubleDotSegmentPattern) :: []))))))))))))))))

(** val valid_ident_start : bytes -> bool **)

let valid_ident_start v =
  go_match g_startsWithAlphabetPattern (decode_runes v)

(** val valid_ident_chars : bytes -> bool **)

let valid_ident_chars v =
  go_match g_onlyAlphanumericsOrHyphenPattern (decode_runes v)

(** val identifier_from_constant : bytes -> bytes option **)

let identifier_from_constant v =
  if (||) (negb (valid_ident_start v)) (negb (valid_ident_chars v))
  then None
  else Some v

(** val identifier_from_constant_prefix : bytes -> bytes -> bytes option **)

let identifier_from_constant_prefix p v =
  if (||) (negb (valid_ident_start p)) (negb (valid_ident_chars p))
  then None
  else if negb (valid_ident_chars v)
       then None
       else Some (app p (app ((Npos (XI (XO (XI (XI (XO XH)))))) :: []) v))

(** val is_alpha : n -> bool **)

let is_alpha b0 =
  (||)
    ((&&) (N.leb (Npos (XI (XO (XO (XO (XO (XO XH))))))) b0)
      (N.leb b0 (Npos (XO (XI (XO (XI (XI (XO XH)))))))))
    ((&&) (N.leb (Npos (XI (XO (XO (XO (XO (XI XH))))))) b0)
      (N.leb b0 (Npos (XO (XI (XO (XI (XI (XI XH)))))))))

(** val is_ident_char : n -> bool **)

let is_ident_char b0 =
  (||)
    ((||)
      ((||) (is_alpha b0)
        ((&&) (N.leb (Npos (XO (XO (XO (XO (XI XH)))))) b0)
          (N.leb b0 (Npos (XI (XO (XO (XI (XI XH)))))))))
      (N.eqb b0 (Npos (XI (XO (XI (XI (XO XH))))))))
    (N.eqb b0 (Npos (XI (XI (XI (XI (XI (XO XH))))))))

(** val ident_spec : bytes -> bool **)

let ident_spec = function
| [] -> false
| b0 :: t -> (&&) (is_alpha b0) (forallb is_ident_char t)

(** val alpha_cls : (n * n) list **)

let alpha_cls =
  ((Npos (XI (XO (XO (XO (XO (XO XH))))))), (Npos (XO (XI (XO (XI (XI (XO
    XH)))))))) :: (((Npos (XI (XO (XO (XO (XO (XI XH))))))), (Npos (XO (XI
    (XO (XI (XI (XI XH)))))))) :: [])

(** val ident_cls : (n * n) list **)

let ident_cls =
  ((Npos (XI (XO (XI (XI (XO XH)))))), (Npos (XI (XO (XI (XI (XO
    XH))))))) :: (((Npos (XO (XO (XO (XO (XI XH)))))), (Npos (XI (XO (XO (XI
    (XI XH))))))) :: (((Npos (XI (XO (XO (XO (XO (XO XH))))))), (Npos (XO (XI
    (XO (XI (XI (XO XH)))))))) :: (((Npos (XI (XI (XI (XI (XI (XO XH))))))),
    (Npos (XI (XI (XI (XI (XI (XO XH)))))))) :: (((Npos (XI (XO (XO (XO (XO
    (XI XH))))))), (Npos (XO (XI (XO (XI (XI (XI XH)))))))) :: []))))

(** val s_starts_alpha : regex **)

let s_starts_alpha =
  Cat (BeginText, (Cat ((Cls alpha_cls), any_star)))

(** val s_only_ident : regex **)

let s_only_ident =
  Cat (BeginText, (Cat ((Star (Cls ident_cls)), EndText)))

(** val c18_bridges : (bytes * (regex * regex)) list **)

let c18_bridges =
  ((b (String ((Ascii (true, true, false, false, true, true, true, false)),
     (String ((Ascii (false, false, true, false, true, true, true, false)),
     (String ((Ascii (true, false, false, false, false, true, true, false)),
     (String ((Ascii (false, true, false, false, true, true, true, false)),
     (String ((Ascii (false, false, true, false, true, true, true, false)),
     EmptyString))))))))))), ((search g_startsWithAlphabetPattern),
    s_starts_alpha)) :: (((b (String ((Ascii (true, true, false, false,
                            false, true, true, false)), (String ((Ascii
                            (false, false, false, true, false, true, true,
                            false)), (String ((Ascii (true, false, false,
                            false, false, true, true, false)), (String
                            ((Ascii (false, true, false, false, true, true,
                            true, false)), (String ((Ascii (true, true,
                            false, false, true, true, true, false)),
                            EmptyString))))))))))),
    ((search g_onlyAlphanumericsOrHyphenPattern),
    s_only_ident)) :: (((b (String ((Ascii (true, true, false, false, true,
                          true, true, false)), (String ((Ascii (false, false,
                          true, false, true, true, true, false)), (String
                          ((Ascii (true, false, false, false, false, true,
                          true, false)), (String ((Ascii (false, true, false,
                          false, true, true, true, false)), (String ((Ascii
                          (false, false, true, false, true, true, true,
                          false)), (String ((Ascii (true, true, true, true,
                          true, false, true, false)), (String ((Ascii (false,
                          true, false, false, true, true, true, false)),
                          (String ((Ascii (true, false, true, false, false,
                          true, true, false)), (String ((Ascii (false, true,
                          true, false, true, true, true, false)),
                          EmptyString))))))))))))))))))), (s_starts_alpha,
    (search g_startsWithAlphabetPattern))) :: (((b (String ((Ascii (true,
                                                  true, false, false, false,
                                                  true, true, false)),
                                                  (String ((Ascii (false,
                                                  false, false, true, false,
                                                  true, true, false)),
                                                  (String ((Ascii (true,
                                                  false, false, false, false,
                                                  true, true, false)),
                                                  (String ((Ascii (false,
                                                  true, false, false, true,
                                                  true, true, false)),
                                                  (String ((Ascii (true,
                                                  true, false, false, true,
                                                  true, true, false)),
                                                  (String ((Ascii (true,
                                                  true, true, true, true,
                                                  false, true, false)),
                                                  (String ((Ascii (false,
                                                  true, false, false, true,
                                                  true, true, false)),
                                                  (String ((Ascii (true,
                                                  false, true, false, false,
                                                  true, true, false)),
                                                  (String ((Ascii (false,
                                                  true, true, false, true,
                                                  true, true, false)),
                                                  EmptyString))))))))))))))))))),
    (s_only_ident, (search g_onlyAlphanumericsOrHyphenPattern))) :: [])))
