open Drv_common
open Drv_tmpl

(* C03 streams
   c03_cell  id <sanitizer> <value wire> <outcome for the value> <out> <outcome for the plain string> <out>
   attr_exec id <element> <attribute> <quote> <static prefix> <value wire> <outcome> <bytes written>
     oracle: the HTML tokenizer specification (spec/HtmlTok.v) sees exactly one start tag <element>
     with the single attribute <attribute>, and ends in the data state: the value cannot terminate
     the attribute or the tag. *)

let impl_opt outcome out = if outcome = "ok" then Some (bytes_of_hex out) else None

let () =
  reg "c03_cell" (fun f ->
      let id = f.(1) in
      let name = bytes_of_hex f.(2) and w = string_of_bytes (bytes_of_hex f.(3)) in
      let v = value_of_wire w in
      let impl = impl_opt f.(4) f.(5) and impl_plain = impl_opt f.(6) f.(7) in
      let m = V.apply_sanitizer name v in
      if not (V.c03_cell_ok name v impl impl_plain) then specfail id "safe_value_not_verbatim_in_own_context_or_not_like_plain_string"
      else if m <> impl then mismatch id (match m with None -> "err" | Some o -> "ok:" ^ hex_of_bytes o)
      else ok id (match V.indirect v with V.VSafe (k, _) when V.own name k -> "+verbatim" | _ -> (if impl = None then "reject" else "+sanitized")));
  reg "attr_exec" (fun f ->
      let id = f.(1) in
      let str i = string_of_bytes (bytes_of_hex f.(i)) in
      let elem = str 2 and attr = str 3 and w = str 6 in
      let outcome = f.(7) and out = bytes_of_hex f.(8) in
      if outcome <> "ok" then ok id ("rejected:" ^ outcome)
      else begin
        let r = V.html_tokenize V.SData out in
        let v = value_of_wire w in
        let fine =
          (match r.V.r_tokens with
           | [V.StartTag (n, [(a, _)], _)] -> string_of_bytes n = String.lowercase_ascii elem && string_of_bytes a = String.lowercase_ascii attr
           | _ -> false)
          && V.hstate_eqb r.V.r_final V.SData in
        (* the raw attribute value is the output of the HTML escaper: every ampersand begins one of the references
           it writes (a value that is only URL-normalised leaves character references of the data live) *)
        let raw_ok = match r.V.r_tokens with
          | [V.StartTag (_, [(_, value)], _)] -> V.amp_ok value
          | _ -> true in
        if fine && not raw_ok && not (V.is_html_kind_value v) then specfail id "attribute_value_not_html_escaped"
        else if fine then ok id "+one_tag_one_attribute"
        else if V.is_html_kind_value v then specfail id "attribute_value_terminates_attribute_or_tag\tfinding=D5"
        else specfail id "attribute_value_terminates_attribute_or_tag"
      end)

(* link_exec id <rel as written> <rel normalised> <value wire> <outcome> <out>  (harness/cmd/run/c03.go)
   <link rel=R href={{.}}>: when the REVIEWED policy gives this rel the TrustedResourceURL class (the rel
   rule does not fire: some value is not allow-listed, or there is none), only a value of that type may
   be emitted; anything else accepted - a safehtml.URL used intact, a plain string only scheme-filtered -
   is a value used outside the context its type covers. *)
let () =
  reg "link_exec" (fun f ->
      let id = f.(1) in
      let norm = bytes_of_hex f.(3) and w = string_of_bytes (bytes_of_hex f.(4)) and outcome = f.(5) in
      let is_tru = has_prefix "safe:tru:" w || has_prefix "ptr:safe:tru:" w in
      match V.reviewed_attr (bytes_of_string "link") (bytes_of_string "href") norm with
      | Some n when n = V.n_TRU ->
        if outcome = "ok" && not is_tru then specfail id "value_emitted_in_a_trusted_resource_url_only_context"
        else ok id (if outcome = "ok" then "+tru_accepted" else "+refused_in_tru_only_context")
      | Some _ -> ok id (if outcome = "ok" then "+url_context_accepts" else "url_context_refuses")
      | None -> ok id "reviewed_deny")

(* cond_exec id <element> <a1> <a2> <value wire> <outcome C=true> <out> <outcome C=false> <out>  (harness/cmd/run/c03.go)
   <E {{if .C}}a1{{else}}a2{{end}}="{{.X}}">: for the attribute that was actually written, the REVIEWED policy
   gives a class and with it the sanitizer whose safe type may pass verbatim.  A safe value of ANOTHER type
   whose contents are a javascript: URL must not come out intact in a URL class, and no accepted value may
   terminate the attribute (one start tag, one attribute, data state). *)
let () =
  reg "cond_exec" (fun f ->
      let id = f.(1) in
      let str i = string_of_bytes (bytes_of_hex f.(i)) in
      let elem = str 2 and a1 = str 3 and a2 = str 4 and w = str 5 in
      let v = value_of_wire w in
      let contents = string_of_bytes (V.stringify v) in
      let judge attr outcome out =
        if outcome <> "ok" then None
        else begin
          let r = V.html_tokenize V.SData (bytes_of_hex out) in
          match r.V.r_tokens with
          | [V.StartTag (n, [(a, value)], _)] when string_of_bytes n = elem && string_of_bytes a = attr && V.hstate_eqb r.V.r_final V.SData ->
            (match V.reviewed_attr (bytes_of_string elem) (bytes_of_string attr) [] with
             | None -> Some ("accepted_where_reviewed_policy_denies:" ^ attr)
             | Some cls ->
               let san, is_url = match V.lookup_bytes cls V.r_contexts with Some (((s, _), u), _) -> (s, u) | None -> ([], false) in
               let covered = match V.indirect v with V.VSafe (k, _) -> V.own san k | _ -> false in
               let decoded = String.lowercase_ascii (string_of_bytes (V.html_unescape value)) in
               if is_url && (not covered) && contents = "javascript:alert(1)" && has_prefix "javascript:" decoded
               then Some ("value_of_a_foreign_type_emitted_intact_in_url_context:" ^ attr)
               else None)
          | _ -> if V.is_html_kind_value v then None (* D5 is judged by attr_exec *) else Some ("attribute_value_terminates_attribute_or_tag:" ^ attr)
        end in
      match judge a1 f.(6) f.(7), judge a2 f.(8) f.(9) with
      | Some c, _ | _, Some c -> specfail id c
      | None, None -> ok id (if f.(6) = "ok" || f.(8) = "ok" then "+branch_attribute_checked" else "rejected"))
