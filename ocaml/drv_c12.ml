open Drv_common

(* C12.  urlset: id s outcome o o2   -- o = URLSetSanitized(s), o2 = URLSetSanitized(o), both from the
   implementation.  The specification predicates (spec/UrlSetSpec.v, WHATWG parser spec/Srcset.v) judge
   the implementation's o; the model (model/UrlSet.v) is compared with it afterwards.
   srcmeta: id m outcome bool  -- isOptionalSrcMetadataWellFormed = the strconv.ParseFloat recogniser. *)
(* V.is_safe_url is pure; the model and the specification take the URL test as an argument
   (model/UrlSet.v urlset_sanitized = urlset_sanitized_with is_safe_url and spec/UrlSetSpec.v
   c12_candidates_clause = c12_candidates_clause_with is_safe_url, by definition), and the driver
   passes this cache of the very same extracted function. *)
let memo f =
  let tbl = Hashtbl.create 65536 in
  fun x -> match Hashtbl.find_opt tbl x with
    | Some y -> y
    | None -> let y = f x in Hashtbl.add tbl x y; y
let safe_memo = memo V.is_safe_url

let () =
  reg "urlset" (fun f ->
      let id = f.(1) in
      let s = bytes_of_hex f.(2) in
      if f.(3) <> "ok" then specfail id "panicked"
      else begin
        let o = bytes_of_hex f.(4) and o2 = bytes_of_hex f.(5) in
        let clause = int_of_n (V.c12_candidates_clause_with safe_memo o) in
        if clause <> 0 then
          specfail id (List.nth ["-"; "no_candidate_in_output"; "whatwg_candidate_url_not_kept_by_URLSanitized";
                                 "whatwg_candidate_descriptor_not_number_letter"; "whatwg_candidate_count_differs_from_items_written"] clause)
        else if not (V.c12_only_drops s o) then specfail id "output_candidates_not_copied_in_order_from_input"
        else if o2 <> o then specfail id "not_idempotent"
        else begin
          let m = V.urlset_sanitized_with safe_memo s in
          if m <> o then mismatch id (hex_of_bytes m)
          else if o = V.innocuous_url then ok id "innocuous"
          else begin
            let kept = List.length (V.candidates o) and read = List.length (V.scan_all s) in
            let browser = List.length (V.parse o) in
            ok id ((if kept < read then "+kept_some" else "+kept_all") ^ (if browser < kept then "/browser_drops_some" else "/browser_keeps_all"))
          end
        end
      end);
  reg "srcmeta" (fun f ->
      let id = f.(1) in
      let m = bytes_of_hex f.(2) in
      if f.(3) <> "ok" then specfail id "panicked"
      else begin
        let impl = f.(4) = "1" in
        (* what the implementation lets through must be "a number followed by at most one ASCII letter" *)
        if impl && not (V.descr_ok m) then specfail id "wellformed_metadata_not_number_letter"
        else begin
          let md = V.is_optional_src_metadata_well_formed m in
          if md = impl then ok id (if md then "+wellformed" else "illformed") else mismatch id (bool_str md)
        end
      end);
  reg_bridges "C12" V.c12_bridges
