open Drv_common

(* Text-level template machine: correspondence streams (model vs implementation through the hooks).
   Wire form of a context = 11 consecutive fields:
     state delim elem elemnames attr attrvalue ambiguous attrnames errcode scripttype linkrel
   numbers in decimal, strings in hex ("-" empty), name lists as comma-separated hex items
   ("[]" for the empty list, "-" for an empty item). *)
let state_of_int = function
  | 0 -> V.StText | 1 -> V.StSpecialElementBody | 2 -> V.StTag | 3 -> V.StAttrName | 4 -> V.StAfterName
  | 5 -> V.StBeforeValue | 6 -> V.StHTMLCmt | 7 -> V.StAttr | _ -> V.StError
let delim_of_int = function
  | 0 -> V.DNone | 1 -> V.DDoubleQuote | 2 -> V.DSingleQuote | _ -> V.DSpaceOrTagEnd

let list_of_wire s = if s = "[]" then [] else List.map bytes_of_hex (String.split_on_char ',' s)
let wire_of_list l = if l = [] then "[]" else String.concat "," (List.map hex_of_bytes l)

let ctx_of_fields (f : string array) (o : int) : V.context =
  { V.c_state = state_of_int (int_of_string f.(o)); c_delim = delim_of_int (int_of_string f.(o + 1));
    c_elem = bytes_of_hex f.(o + 2); c_elem_names = list_of_wire f.(o + 3);
    c_attr = bytes_of_hex f.(o + 4); c_attr_value = bytes_of_hex f.(o + 5);
    c_attr_amb = (f.(o + 6) = "1"); c_attr_names = list_of_wire f.(o + 7);
    c_err = (if f.(o + 8) = "0" then None else Some (n_of_int (int_of_string f.(o + 8))));
    c_script_type = bytes_of_hex f.(o + 9); c_link_rel = bytes_of_hex f.(o + 10) }

let wire_of_ctx (c : V.context) : string =
  String.concat "\t"
    [ string_of_int (int_of_n (V.state_num c.V.c_state)); string_of_int (int_of_n (V.delim_num c.V.c_delim));
      hex_of_bytes c.V.c_elem; wire_of_list c.V.c_elem_names; hex_of_bytes c.V.c_attr; hex_of_bytes c.V.c_attr_value;
      (if c.V.c_attr_amb then "1" else "0"); wire_of_list c.V.c_attr_names;
      (match c.V.c_err with None -> "0" | Some e -> string_of_int (int_of_n e));
      hex_of_bytes c.V.c_script_type; hex_of_bytes c.V.c_link_rel ]

let fields_from (f : string array) (o : int) (n : int) = String.concat "\t" (Array.to_list (Array.sub f o n))

let rec int_of_nat = function V.O -> 0 | V.S n -> 1 + int_of_nat n

let () =
  (* ctx_after_text id <ctx:11> <text> <outcome ok|panic> <ctx':11> <n> *)
  reg "ctx_after_text" (fun f ->
      let id = f.(1) in
      let c = ctx_of_fields f 4 and s = bytes_of_hex f.(3) in
      let impl_out = f.(15) in
      match V.context_after_text c s with
      | V.TPanic -> if impl_out = "panic" then specfail id "contextAfterText_panics" else mismatch id "panic"
      | V.TOk (c1, n) ->
        if impl_out = "panic" then specfail id "contextAfterText_panics"
        else
          let m = wire_of_ctx c1 ^ "\t" ^ string_of_int (int_of_nat n) in
          if m = fields_from f 16 12 then ok id ("+s" ^ string_of_int (int_of_n (V.state_num c1.V.c_state)))
          else mismatch id m);
  (* escape_text id <ctx:11> <text> <csp> <outcome> <ctx':11> <edited> <out> *)
  reg "escape_text" (fun f ->
      let id = f.(1) in
      let c = ctx_of_fields f 5 and s = bytes_of_hex f.(3) and csp = (f.(4) = "31") in
      let impl_out = f.(16) in
      match V.escape_text csp c s with
      | V.EPanic -> if impl_out = "panic" then specfail id "escapeText_panics" else mismatch id "panic"
      | V.EOk (c1, edited, out) ->
        if impl_out = "panic" then specfail id "escapeText_panics"
        else
          let m = wire_of_ctx c1 ^ "\t" ^ (if edited then "1" else "0") ^ "\t" ^ hex_of_bytes out in
          if m = fields_from f 17 13 then ok id (if edited then "+edited" else if c1.V.c_state = V.StError then "+error" else "plain")
          else mismatch id m);
  (* sanitizer_for id <ctx:11> <outcome ok|err> <names as list wire> *)
  reg "sanitizer_for" (fun f ->
      let id = f.(1) in
      let c = ctx_of_fields f 3 in
      let m = match V.sanitizer_for_context c with None -> "err\t[]" | Some l -> "ok\t" ^ wire_of_list l in
      if m = fields_from f 14 2 then ok id (if String.length m > 2 && String.sub m 0 2 = "ok" then "+ok" else "err") else mismatch id m);
  (* sc_attr id <element> <attr> <linkrel> <sc or 0> ; sc_content id <element> <sc or 0> *)
  reg "sc_attr" (fun f ->
      let id = f.(1) in
      let m = match V.sc_for_attr_val (bytes_of_hex f.(2)) (bytes_of_hex f.(3)) (bytes_of_hex f.(4)) with
        | None -> "0" | Some sc -> string_of_int (int_of_n sc) in
      if m = f.(5) then ok id (if m = "0" then "deny" else "+allow") else mismatch id m);
  reg "sc_content" (fun f ->
      let id = f.(1) in
      let m = match V.sc_for_element_content (bytes_of_hex f.(2)) with None -> "0" | Some sc -> string_of_int (int_of_n sc) in
      if m = f.(3) then ok id (if m = "0" then "deny" else "+allow") else mismatch id m);
  (* prefix validators: <which url|tru|decode|charref> <prefix> <ok 1/0> [<decoded>] *)
  reg "url_prefix" (fun f ->
      let id = f.(1) in
      let p = bytes_of_hex f.(3) in
      let m = match string_of_bytes (bytes_of_hex f.(2)) with
        | "url" -> bool_str (V.validate_url_prefix p)
        | "tru" -> bool_str (V.validate_tru_prefix p)
        | "charref" -> bool_str (V.validate_no_charref_prefix p)
        | _ -> (match V.decode_url_prefix p with None -> "0" | Some d -> "1:" ^ hex_of_bytes d) in
      if m = f.(4) then ok id (if m = "0" then "reject" else "+accept") else mismatch id m);
  reg "mangle" (fun f ->
      let id = f.(1) in
      let m = hex_of_bytes (V.mangle (ctx_of_fields f 4) (bytes_of_hex f.(3))) in
      if m = f.(15) then ok id "+mangle" else mismatch id m);
  reg "join" (fun f ->
      let id = f.(1) in
      let m = wire_of_ctx (V.join (ctx_of_fields f 4) (ctx_of_fields f 15)) in
      if m = fields_from f 26 11 then ok id "+join" else mismatch id m);
  reg "js_balanced" (fun f ->
      let id = f.(1) in
      let m = match V.is_js_template_balanced (bytes_of_hex f.(2)) with Some true -> "1" | Some false -> "0" | None -> "fuel" in
      if m = f.(3) then ok id (if m = "1" then "+balanced" else "unbalanced") else mismatch id m)

(* value wire: str:<hex> | safe:<kind>:<hex> | ptr:<value> | int:<dec> | stringer:<hex> | err:<hex> | nil *)
let kind_of_string = function
  | "html" -> V.KHTML | "script" -> V.KScript | "style" -> V.KStyle | "stylesheet" -> V.KStyleSheet
  | "url" -> V.KURL | "tru" -> V.KTRU | "identifier" -> V.KIdentifier | k -> failwith ("bad kind " ^ k)

let has_prefix p s = String.length s >= String.length p && String.sub s 0 (String.length p) = p
let after p s = String.sub s (String.length p) (String.length s - String.length p)

let rec value_of_wire (w : string) : V.value =
  if w = "nil" then V.VNil
  else if has_prefix "str:" w then V.VStr (bytes_of_hex (after "str:" w))
  else if has_prefix "safe:" w then begin
    let r = after "safe:" w in
    let i = String.index r ':' in
    V.VSafe (kind_of_string (String.sub r 0 i), bytes_of_hex (String.sub r (i + 1) (String.length r - i - 1)))
  end
  else if has_prefix "ptr:" w then V.VPtr (value_of_wire (after "ptr:" w))
  else if has_prefix "int:" w then V.VOther (bytes_of_string (after "int:" w))
  else if has_prefix "stringer:" w then V.VOther (bytes_of_hex (after "stringer:" w))
  else if has_prefix "err:" w then V.VOther (bytes_of_hex (after "err:" w))
  else failwith ("bad value wire " ^ w)

let () =
  reg "sanitizer_apply" (fun f ->
      let id = f.(1) in
      let name = bytes_of_hex f.(2) and v = value_of_wire (string_of_bytes (bytes_of_hex f.(3))) in
      let m = match V.apply_sanitizer name v with None -> "err\t-" | Some o -> "ok\t" ^ hex_of_bytes o in
      let impl = if f.(4) = "missing" then "err\t-" else f.(4) ^ "\t" ^ f.(5) in
      if m = impl then ok id (if f.(4) = "ok" then "+ok" else "err") else mismatch id m)

(* ---- the template text as static pieces and actions (shared by the finding classifiers of C01 / C02) *)
type spiece = SText of string | SAct
let split_pieces (t : string) : spiece list =
  let n = String.length t in
  let rec go i start acc =
    if i + 1 < n && t.[i] = '{' && t.[i + 1] = '{' then begin
      let acc = if i > start then SText (String.sub t start (i - start)) :: acc else acc in
      let rec close j inq =
        if j >= n then n
        else if inq then (if t.[j] = '\\' then close (j + 2) true else if t.[j] = '"' then close (j + 1) false else close (j + 1) true)
        else if t.[j] = '"' then close (j + 1) true
        else if j + 1 < n && t.[j] = '}' && t.[j + 1] = '}' then j
        else close (j + 1) false in
      let j = close (i + 2) false in
      go (j + 2) (j + 2) (SAct :: acc)
    end
    else if i >= n then List.rev (if n > start then SText (String.sub t start (n - start)) :: acc else acc)
    else go (i + 1) start acc in
  go 0 0 []

(* D48: an attribute name split over several text nodes: inside a tag, after the tag name and outside
   quoted values, static text that ends in a name character is followed (after actions / control
   structures only) by static text that starts with a name character or a solidus.  The engine keeps
   the first part as the attribute name; the tokenizer reads one longer name (srcdoc for src + doc) or
   a new attribute after the solidus (data-x/onclick) *)
let split_name_finding (text : string) : bool =
  let name_char c = (c >= 'a' && c <= 'z') || (c >= 'A' && c <= 'Z') || (c >= '0' && c <= '9') || c = '-' || c = '_' || c = ':' || c = '.' in
  let ps = split_pieces text in
  (* in_tag_name_done acc: the static text so far ends inside a tag, after white space that follows the
     tag name, outside quotes *)
  let in_attr_area (acc : string) : bool =
    match String.rindex_opt acc '<' with
    | None -> false
    | Some i ->
      let tail = String.sub acc i (String.length acc - i) in
      (not (String.contains tail '>')) &&
      (String.contains tail ' ' || String.contains tail '\t' || String.contains tail '\n' || String.contains tail '/') &&
      (let q = ref 0 in String.iter (fun c -> if c = '"' || c = '\'' then incr q) tail; !q mod 2 = 0) in
  let rec go acc = function
    | SText a :: rest ->
      let acc' = acc ^ a in
      let n = String.length a in
      if n > 0 && name_char a.[n - 1] && in_attr_area acc' then
        (let rec skip = function SAct :: r -> skip r | r -> r in
         match rest with
         | SAct :: _ ->
           (match skip rest with
            | SText b :: _ when String.length b > 0 && (name_char b.[0] || b.[0] = '/') -> true
            | _ -> go acc' rest)
         | _ -> go acc' rest)
      else go acc' rest
    | SAct :: rest -> go acc rest
    | [] -> false in
  go "" ps


(* D50: a control structure stands where an unquoted attribute value would start: directly (or after white
   space) after the equals sign of an attribute.  When it writes nothing the tokenizer is still before the
   attribute value and takes what follows - the next attribute, quotes included - for the value *)
let branch_at_value_finding (text : string) : bool =
  let n = String.length text in
  let starts_at i p = i + String.length p <= n && String.sub text i (String.length p) = p in
  let rec skip_ws i = if i < n && (text.[i] = ' ' || text.[i] = '\t' || text.[i] = '\n') then skip_ws (i + 1) else i in
  let rec go i =
    if i >= n then false
    else if text.[i] = '=' then
      let j = skip_ws (i + 1) in
      if List.exists (starts_at j) ["{{if"; "{{with"; "{{range"; "{{- if"; "{{ if"; "{{ with"; "{{ range"] then true else go (i + 1)
    else go (i + 1) in
  go 0
