open Drv_common
open Drv_histprop

(* C05: templates that cannot be contextualized never produce output (sticky). *)
let () =
  hist_stream "hist05" (fun es _ ->
      let bad = ref None in
      List.iter (fun e ->
          if !bad = None then begin
            if not e.sticky then bad := Some (Printf.sprintf "op%d:execution_after_analysis_failure_did_not_fail_with_zero_bytes" e.k)
            else if not e.tohtml then bad := Some (Printf.sprintf "op%d:ToHTML_returned_nonzero_HTML_with_an_error" e.k)
            else if is_prefix "escape:" e.fresh_res && not (is_prefix "escape:" e.res && e.len = 0) then
              (* on a fresh set with the same definitions the analysis fails, here the call produced output *)
              bad := Some (Printf.sprintf "op%d:template_that_cannot_be_contextualized_was_executed:%s%s" e.k e.res
                             (if e.shared <> [] then "\tfinding=D1" else ""))
          end) es;
      !bad)
