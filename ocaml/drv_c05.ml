open Drv_common
open Drv_histprop

(* C05: templates that cannot be contextualized never produce output (sticky). *)
let () =
  hist_stream "hist05" (fun es _ ->
      let bad = ref None in
      List.iter (fun e ->
          if !bad = None then begin
            if not e.sticky then bad := Some (Printf.sprintf "op%d:execution_after_analysis_failure_did_not_fail_with_zero_bytes" e.k)
            else if not e.tohtml then bad := Some (Printf.sprintf "op%d:ToHTML_returned_nonzero_HTML_with_an_error" e.k)
            else if is_prefix "escape:" e.fresh_res && not (is_prefix "escape:" e.res && e.len = 0) then
              (* on a fresh set with the same definitions the analysis fails, here the call produced output *)
              bad := Some (Printf.sprintf "op%d:template_that_cannot_be_contextualized_was_executed:%s%s" e.k e.res
                             (if e.shared <> [] then "\tfinding=D1" else ""))
          end) es;
      !bad)

(* "a non-text end context", from the tokenizer specification alone: in a history on ONE set (one New, no
   Clone, no t.New), a name whose only definition is static text (no action, no call) that leaves the HTML
   tokenizer inside a tag, an attribute value, a comment or the body of a script / style / textarea /
   title element (V.static_text_must_be_refused) must not execute successfully when it is the first execution
   of the history (later ones are judged by the fresh-set oracle, which knows finding D1) *)
let static_end_violation (f : string array) : string option =
  try
    let n = int_of_string f.(3) in
    let ops = List.init n (fun k -> (f.(4 + 3 * k), f.(5 + 3 * k))) in
    let kind w = if String.length w > 0 then w.[0] else '?' in
    let news = List.length (List.filter (fun (w, _) -> kind w = 'N') ops) in
    if news <> 1 || List.exists (fun (w, _) -> kind w = 'C' || kind w = 'S') ops then None
    else begin
      (* name -> static text of its definitions so far *)
      let defs : (V.n list * V.n list option) list ref = ref [] in
      let bad = ref None in
      List.iteri (fun k (w, res) ->
          match kind w with
          | 'P' when res = "parseok" ->
            (match String.split_on_char ':' w with
             | _ :: _ :: rest ->
               let body = String.concat ":" rest in
               if String.length body > 1 && body.[0] = 'T' then
                 List.iter (fun d ->
                     match Drv_hist.def_of d with
                     | (name, Some tree) ->
                       let static = if List.for_all (function V.NText _ -> true | _ -> false) tree
                         then Some (List.concat (List.map (function V.NText (_, t) -> t | _ -> []) tree)) else None in
                       let static = if List.mem_assoc name !defs then None else static in   (* defined twice: not judged *)
                       defs := (name, static) :: List.remove_assoc name !defs
                     | _ -> ())
                   (Drv_hist.parse_all (String.sub body 1 (String.length body - 1)))
             | _ -> ())
          | 'Y' when res = "exec" && !bad = None
                     (* the first execution of the history only: what earlier executions leave behind is finding D1 *)
                     && not (List.exists (fun (w', _) -> kind w' = 'X' || kind w' = 'Y') (List.filteri (fun j _ -> j < k) ops)) ->
            (match String.split_on_char ':' w with
             | [_; _; hexname] ->
               (match List.assoc_opt (bytes_of_hex hexname) !defs with
                | Some (Some text) when V.static_text_must_be_refused text ->
                  bad := Some (Printf.sprintf "op%d:static_template_ending_in_a_non_text_context_was_executed" k)
                | _ -> ())
             | _ -> ())
          | _ -> ()) ops;
      !bad
    end
  with _ -> None

(* the reference analysis (the extracted model, which agrees with the unchanged engine on every history of the
   run) refuses the template - error code n, one of the causes the property lists - and the implementation ran
   it: the disagreement "op<k>:<X|Y>:..:result:escape:<n>" against an implementation result "exec" IS an input on
   which the property fails, and is reported as such instead of as a bare correspondence break *)
let reference_refuses (f : string array) : string option =
  try
    match Drv_hist.replay f 3 with
    | (Some d, _) ->
      (match String.split_on_char ':' d with
       | opk :: kind :: rest when (kind = "X" || kind = "Y") && String.length opk > 2 && String.sub opk 0 2 = "op" ->
         let k = int_of_string (String.sub opk 2 (String.length opk - 2)) in
         let rec tail = function "result" :: "escape" :: [code] -> Some code | _ :: t -> tail t | [] -> None in
         (match tail rest with
          | Some code when f.(5 + 3 * k) = "exec" ->
            Some (Printf.sprintf "op%d:the_reference_analysis_refuses_the_template_(error_code_%s)_but_it_was_executed" k code)
          | _ -> None)
       | _ -> None)
    | _ -> None
  with _ -> None

let () =
  let prev = Hashtbl.find handlers "hist05" in
  reg "hist05" (fun f ->
      match static_end_violation f with
      | Some c -> specfail f.(1) c
      | None -> (match reference_refuses f with Some c -> specfail f.(1) c | None -> prev f))
