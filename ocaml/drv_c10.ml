open Drv_common

(* streams of C10:
     html_escaped id <s> <HTMLEscaped(s)> <html.UnescapeString(HTMLEscaped(s))>
     html_concat  id <n> <s1> .. <sn> <HTMLConcat(HTMLEscaped s1, ..)> <the same call again> <slice unchanged 1|0> *)
let () =
  reg "html_escaped" (fun f ->
      let id = f.(1) in
      let s = bytes_of_hex f.(2) and o = bytes_of_hex f.(3) and u = bytes_of_hex f.(4) in
      let m = V.html_escaped s in
      if not (V.no_quote_or_angle o) then specfail id "quote_or_angle_in_output"
      else if not (V.amp_ok o) then specfail id "ampersand_not_a_reference"
      else if not (V.utf8_valid o) then specfail id "output_not_valid_utf8"
      else if not (List.for_all V.clean_rune (V.decode_runes o)) then specfail id "control_or_noncharacter_in_output"
      else if u <> V.coerce_spec s then specfail id "unescape_does_not_round_trip"
      else if V.html_unescape o <> u then mismatch id ("unescape:" ^ hex_of_bytes (V.html_unescape o))
      else if m <> o then mismatch id (hex_of_bytes m)
      else ok id (if o = s then "verbatim" else "+escaped"));
  reg "html_concat" (fun f ->
      let id = f.(1) in
      let n = int_of_string f.(2) in
      let parts = List.init n (fun i -> bytes_of_hex f.(3 + i)) in
      let o = bytes_of_hex f.(3 + n) in
      let expect = List.concat (List.map V.html_escaped parts) in
      let second_differs = Array.length f > 4 + n && bytes_of_hex f.(4 + n) <> expect in
      let slice_written = Array.length f > 5 + n && f.(5 + n) = "0" in
      if o <> expect then specfail id "concat_is_not_concatenation"
      else if second_differs then specfail id "concat_of_the_same_slice_differs_the_second_time"
      else if slice_written then specfail id "concat_writes_to_the_callers_slice"
      else ok id "+concat");
  (* html_concat_raw id <n> <raw piece 1> .. <raw piece n> <HTMLConcat of the pieces> <the same call again> *)
  reg "html_concat_raw" (fun f ->
      let id = f.(1) in
      let n = int_of_string f.(2) in
      let parts = List.init n (fun i -> bytes_of_hex f.(3 + i)) in
      let expect = List.concat parts in
      if bytes_of_hex f.(3 + n) <> expect then specfail id "concat_of_raw_pieces_is_not_concatenation"
      else if bytes_of_hex f.(4 + n) <> expect then specfail id "concat_of_the_same_slice_differs_the_second_time"
      else ok id "+concat_raw");
  reg_bridges "C10" V.c10_bridges
