open Drv_common

(* Differential validation of coq/spec/HtmlTok.v (WHATWG tokenizer, written from the standard)
   against golang.org/x/net/html v0.34.0.  Stream:
     htok id <ctx> <input> <x/net tokens in wire form, see harness/cmd/run/htok.go>
   Verdicts: ok +struct / ok text   the two token streams are identical (a validated trace)
             ok dev:<names>         they differ, and become identical after undoing exactly the
                                    deviations of x/net named (predicates below); not counted as
                                    validated traces
             MISMATCH <spec wire>   they differ and no class applies: triage by hand against the
                                    standard; a spec mistake is FIXED IN THE SPEC, never listed here.
             SPECFAIL <clause>      an internal invariant of the spec is violated (classes length,
                                    skel consistent with tokens, incremental run = whole run).

   KNOWN DEVIATIONS OF x/net/html v0.34.0 FROM THE STANDARD.  Each was triaged by hand against the
   text of 13.2.5; the predicates are evaluated only when the streams differ.

   selfclose   13.2.5.38 attribute value (unquoted): a solidus is an ordinary value character, so
               <a b=c/> is a NON-self-closing start tag with b = c/ .  x/net decides self-closing
               by looking at the byte before the closing bracket and reports SelfClosingTagToken.
               Predicate: the streams differ only in that flag, on start tags whose last
               attribute value (spec) ends with a solidus.
   nul         13.2.5.8 / .33 / .36-.38 / .55: NUL in a tag name, attribute name, attribute value or
               DOCTYPE name is replaced by U+FFFD.  x/net keeps the NUL there (it converts NUL only
               in comments and in RCDATA / RAWTEXT / script / PLAINTEXT text, where it agrees).
               Predicate: the input contains NUL and the streams are equal after NUL -> U+FFFD in
               those four places of x/net's stream.
   bang-gt-eof 13.2.5.42 + .41: "<!>" is an empty comment wherever it stands.  At the very end of the
               input x/net's two-byte look-ahead for "--" hits end of file after the bracket and
               reports the comment data ">".  Predicate: input ends with <!> , the last tokens are
               Comment "" (spec) and Comment ">" (x/net), everything before is equal.
   decl-eof    13.2.5.42: when the input ends inside a partial DOCTYPE keyword (<!DOC EOF) nothing
               matches, so the bytes are the data of a bogus comment, emitted at EOF (13.2.5.41).
               x/net loses them and reports an empty comment.  Predicate: the spec ends in
               SMarkupDeclOpen, the last tokens are Comment <look-ahead> (spec) and Comment ""
               (x/net), everything before is equal.
   escaped-lt  13.2.5.23 script data escaped less-than sign, "anything else": emit the less-than
               sign and reconsume in the script data ESCAPED state.  x/net goes back to the plain
               script data state instead (token.go, label scriptDataEscapedLessThanSign:
               "goto scriptData"), so after e.g. <!--<!-- it no longer recognises <script> as
               the start of a double-escaped section and ends the element at an earlier or later
               </script>.  Predicate: the spec's run consumes, in state SScriptDataEscapedLT, a
               byte that is neither a solidus nor an ASCII letter.  The rest of such a stream is
               not comparable and is skipped. *)

let hx = hex_of_bytes

let wire_of_token = function
  | V.StartTag (n, attrs, sc) ->
    "S." ^ hx n ^ "." ^ (if sc then "1" else "0") ^ "."
    ^ (if attrs = [] then "-" else String.concat ";" (List.map (fun (k, v) -> hx k ^ "=" ^ hx v) attrs))
  | V.EndTag n -> "E." ^ hx n
  | V.Comment d -> "C." ^ hx d
  | V.Doctype n -> "D." ^ hx n
  | V.Chars d -> "T." ^ hx d

let wire_of_tokens l = if l = [] then "-" else String.concat "," (List.map wire_of_token l)

let token_of_wire (w : string) : V.htoken =
  match String.split_on_char '.' w with
  | [ "S"; n; sc; attrs ] ->
    let al =
      if attrs = "-" then []
      else
        List.map
          (fun a -> match String.split_on_char '=' a with [ k; v ] -> (bytes_of_hex k, bytes_of_hex v) | _ -> failwith "bad attr")
          (String.split_on_char ';' attrs)
    in
    V.StartTag (bytes_of_hex n, al, sc = "1")
  | [ "E"; n ] -> V.EndTag (bytes_of_hex n)
  | [ "C"; d ] -> V.Comment (bytes_of_hex d)
  | [ "D"; n ] -> V.Doctype (bytes_of_hex n)
  | [ "T"; d ] -> V.Chars (bytes_of_hex d)
  | _ -> failwith "bad token"

let tokens_of_wire w = if w = "-" then [] else List.map token_of_wire (String.split_on_char ',' w)

let init_of_ctx ctx = if ctx = [] then V.SData else V.content_model ctx

let is_struct = function V.Chars _ -> false | _ -> true

let b0 = byte_tab.(0)
let fffd = [ byte_tab.(239); byte_tab.(191); byte_tab.(189) ]
let nul_fix (l : V.n list) = List.concat (List.map (fun b -> if b = b0 then fffd else [ b ]) l)

let rec last = function [] -> None | [ x ] -> Some x | _ :: r -> last r
let rec but_last = function [] | [ _ ] -> [] | x :: r -> x :: but_last r
let ends_with_solidus v = match last v with Some b -> b = byte_tab.(47) | None -> false
let ends_with (suffix : V.n list) (l : V.n list) =
  let n = List.length suffix and m = List.length l in
  m >= n && List.filteri (fun i _ -> i >= m - n) l = suffix

(* undo "selfclose" in x/net's stream where the predicate holds *)
let fix_selfclose spec x =
  if List.length spec <> List.length x then (x, false)
  else
    let changed = ref false in
    let x' =
      List.map2
        (fun s t ->
          match (s, t) with
          | V.StartTag (_, sa, false), V.StartTag (n, ta, true)
            when (match last sa with Some (_, v) -> ends_with_solidus v | None -> false) ->
            changed := true;
            V.StartTag (n, ta, false)
          | _ -> t)
        spec x
    in
    (x', !changed)

let fix_nul inp x =
  if not (List.mem b0 inp) then (x, false)
  else
    let x' =
      List.map
        (function
          | V.StartTag (n, a, sc) -> V.StartTag (nul_fix n, List.map (fun (k, v) -> (nul_fix k, nul_fix v)) a, sc)
          | V.EndTag n -> V.EndTag (nul_fix n)
          | V.Doctype n -> V.Doctype (nul_fix n)
          | t -> t)
        x
    in
    (x', x' <> x)

let fix_bang_gt_eof inp spec x =
  match (last spec, last x) with
  | Some (V.Comment []), Some (V.Comment [ g ]) when g = byte_tab.(62) && ends_with (bytes_of_string "<!>") inp ->
    (but_last x @ [ V.Comment [] ], true)
  | _ -> (x, false)

let fix_decl_eof (r : V.tok_result) spec x =
  match (r.V.r_final, last spec, last x) with
  | V.SMarkupDeclOpen, Some (V.Comment d), Some (V.Comment []) when d <> [] -> (but_last x @ [ V.Comment d ], true)
  | _ -> (x, false)

(* does the spec's run consume a byte other than solidus / letter in SScriptDataEscapedLT ? *)
let escaped_lt_anything_else init inp =
  let rec go t = function
    | [] -> false
    | b :: r ->
      let i = int_of_n b in
      let letter = (65 <= i && i <= 90) || (97 <= i && i <= 122) in
      if t.V.t_state = V.SScriptDataEscapedLT && i <> 47 && not letter then true else go (V.tok_step t b) r
  in
  go (V.tok_init init) inp

(* cross-check between the position classes and the tokens: the maximal runs of bytes classified
   PAttrValue (e, a, _) spell, in order, the non-empty raw attribute values of the start tags (a tag
   cut off by the end of the input has classes but no token, hence "prefix").  Only for inputs
   without CR and NUL, which are rewritten on the way into the value. *)
let attr_runs (inp : V.n list) (cls : V.posclass list) =
  let rec go acc cur inp cls =
    match (inp, cls) with
    | b :: ir, V.PAttrValue (e, a, _) :: cr ->
      (match cur with
       | Some (e', a', v) when e' = e && a' = a -> go acc (Some (e, a, b :: v)) ir cr
       | Some (e', a', v) -> go (((e', a'), List.rev v) :: acc) (Some (e, a, [ b ])) ir cr
       | None -> go acc (Some (e, a, [ b ])) ir cr)
    | _ :: ir, _ :: cr -> (match cur with Some (e', a', v) -> go (((e', a'), List.rev v) :: acc) None ir cr | None -> go acc None ir cr)
    | _ -> List.rev (match cur with Some (e', a', v) -> ((e', a'), List.rev v) :: acc | None -> acc)
  in
  go [] None inp cls

let rec is_prefix a b = match (a, b) with [], _ -> true | x :: a', y :: b' -> x = y && is_prefix a' b' | _ -> false

let classes_match_attrs inp (r : V.tok_result) =
  List.mem byte_tab.(13) inp || List.mem b0 inp
  || is_prefix (List.filter (fun (_, v) -> v <> []) (V.attr_values_raw r.V.r_tokens)) (attr_runs inp r.V.r_classes)

let rec split_at n l = if n = 0 then ([], l) else match l with [] -> ([], []) | x :: r -> let a, b = split_at (n - 1) r in (x :: a, b)

let () =
  reg "htok" (fun f ->
      let id = f.(1) in
      let ctx = bytes_of_hex f.(2) and inp = bytes_of_hex f.(3) and impl = f.(4) in
      let init = init_of_ctx ctx in
      let r = V.html_tokenize init inp in
      let w = wire_of_tokens r.V.r_tokens in
      (* internal invariants of the spec, checked on every case *)
      let half, rest = split_at (List.length inp / 2) inp in
      let t2 = V.tok_run (V.tok_run (V.tok_init init) half) rest in
      let sk, fin = V.skel_from init inp in
      if List.length r.V.r_classes <> List.length inp then specfail id "classes_length"
      else if V.tok_eof t2 <> r.V.r_tokens || not (V.hstate_eqb t2.V.t_state r.V.r_final) then specfail id "incremental_run"
      else if List.length sk <> List.length (List.filter is_struct r.V.r_tokens) || not (V.hstate_eqb fin r.V.r_final) then
        specfail id "skel_consistent"
      else if not (classes_match_attrs inp r) then specfail id "classes_vs_attr_values"
      else if impl = "panic" then mismatch id ("xnet-panic:" ^ w)
      else if w = impl then ok id (if List.exists is_struct r.V.r_tokens then "+struct" else "text")
      else if escaped_lt_anything_else init inp then ok id "dev:escaped-lt"
      else begin
        let spec = r.V.r_tokens in
        let x = tokens_of_wire impl in
        let names = ref [] in
        let app name (x', c) = if c then names := name :: !names; x' in
        let x = app "bang-gt-eof" (fix_bang_gt_eof inp spec x) in
        let x = app "decl-eof" (fix_decl_eof r spec x) in
        let x = app "selfclose" (fix_selfclose spec x) in
        let x = app "nul" (fix_nul inp x) in
        if x = spec && !names <> [] then ok id ("dev:" ^ String.concat "+" (List.rev !names)) else mismatch id w
      end)
