open Drv_common

(* Shared reader of the verdict field produced by harness/cmd/run/histprop.go:
   exec records  k|res|len|fresh:<res>:<same>|proj:<res>:<same>|sticky:b|shared:a,b|opening:a|tohtml:b|rep:b
   and clause records  P<k>:b  C<k>:b  F<k>:b (the result of exec op k is the same without the Parse calls made
   after the first execution of its name space) *)
type exec_rec = {
  k : int; res : string; len : int; fresh_res : string; fresh_same : bool; proj_res : string; proj_same : string;
  sticky : bool; shared : string list; opening : string list; tohtml : bool; rep : string;
}

let split_nonempty c s = List.filter (fun x -> x <> "") (String.split_on_char c s)

let after_colon s = let i = String.index s ':' in String.sub s (i + 1) (String.length s - i - 1)

let parse_verdicts (v : string) : exec_rec list * (string * bool) list =
  if v = "-" then ([], [])
  else
    List.fold_left (fun (es, cs) r ->
        if String.length r > 0 && (r.[0] = 'P' || r.[0] = 'C' || r.[0] = 'F') then
          (es, (String.sub r 0 (String.index r ':'), after_colon r = "1") :: cs)
        else
          match String.split_on_char '|' r with
          | [k; res; len; fresh; proj; sticky; shared; opening; tohtml; rep] ->
            let f = String.split_on_char ':' fresh and p = String.split_on_char ':' proj in
            let last l = List.nth l (List.length l - 1) in
            let mid l = String.concat ":" (List.filteri (fun i _ -> i > 0 && i < List.length l - 1) l) in
            ({ k = int_of_string k; res; len = int_of_string len; fresh_res = mid f; fresh_same = (last f = "1");
               proj_res = mid p; proj_same = last p; sticky = (after_colon sticky = "1");
               shared = split_nonempty ',' (after_colon shared); opening = split_nonempty ',' (after_colon opening);
               tohtml = (after_colon tohtml = "1"); rep = after_colon rep } :: es, cs)
          | _ -> failwith ("bad verdict record " ^ r))
      ([], []) (String.split_on_char ';' v)

let is_prefix p s = String.length s >= String.length p && String.sub s 0 (String.length p) = p

(* runs the correspondence part and hands the parsed verdicts to the property's judge *)
let hist_stream (name : string) (judge : exec_rec list -> (string * bool) list -> string option) =
  reg name (fun f ->
      let id = f.(1) in
      let (es, cs) = parse_verdicts f.(Array.length f - 1) in
      (* an API call that panics is C08's business; what the set does after a panic is not judged here *)
      let rec until_panic = function
        | [] -> []
        | e :: t -> if is_prefix "panic" e.res || is_prefix "execpanic" e.res || is_prefix "panic" e.fresh_res || is_prefix "execpanic" e.fresh_res
          then [] else e :: until_panic t in
      let es = until_panic (List.rev es) in
      (* the oracle compares the implementation with itself and does not depend on the model:
         it is judged first; the model correspondence second *)
      let corr = Drv_hist.replay f 3 in
      match judge es (List.rev cs) with
      | Some clause ->
        (* a recorded finding (D1, D6) is a property of the ALGORITHM, which the model reproduces: the
           finding tag is honoured only when the model agrees with the implementation on this very
           history; a deviation the model does not reproduce is a new violation *)
        let tag_at =
          let pat = "\tfinding=" in
          let n = String.length clause and m = String.length pat in
          let rec go i = if i + m > n then -1 else if String.sub clause i m = pat then i else go (i + 1) in
          go 0 in
        (match corr with
         | (Some _, _) when tag_at >= 0 ->
           specfail id (String.sub clause 0 tag_at ^ ":not_reproduced_by_the_model")
         | _ -> specfail id clause)
      | None ->
        (match corr with
         | (Some d, _) -> mismatch id d
         | (None, kinds) -> ok id ("+" ^ (if String.contains kinds 'X' || String.contains kinds 'Y' then "exec" else "noexec"))))
