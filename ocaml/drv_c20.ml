(* C20: TrustedSourceFromConstantDir.  Streams:
     tsrc_dir   id dir src filename outcome(ok|err|panic) out
                SPECFAIL when the IMPLEMENTATION's own result falsifies the C20 predicate
                (c20_spec of spec/PathSpec.v: plain filename, result = cleaned join of dir and
                src or its direct child named filename); MISMATCH when model <> implementation.
     path_clean id p outcome out          Go's filepath.Clean  vs  the lazybuf transliteration
                                          AND the component-stack normal form
     path_join  id a b c outcome out      Go's filepath.Join   vs  go_join AND join_clean *)
open Drv_common

let () =
  reg "tsrc_dir" (fun f ->
      let id = f.(1) in
      let dir = bytes_of_hex f.(2) and src = bytes_of_hex f.(3) and fn = bytes_of_hex f.(4) in
      let m = V.from_constant_dir dir src fn in
      match f.(5) with
      | "ok" ->
        let r = bytes_of_hex f.(6) in
        if not (V.c20_spec dir src fn r) then specfail id (string_of_bytes (V.c20_clause dir src fn r))
        else if m = Some r then
          ok id (if r = V.join_clean [dir; src] then "+accept_base" else "+accept_child")
        else mismatch id (opt_str m)
      | "err" ->
        if m = None then ok id (if fn = bytes_of_string ".." then "reject_dotdot" else "reject_separator")
        else mismatch id (opt_str m)
      | _ -> mismatch id (opt_str m));
  reg "path_clean" (fun f ->
      let id = f.(1) in
      let p = bytes_of_hex f.(2) in
      let impl = bytes_of_hex f.(4) in
      let m1 = V.clean p and m2 = V.clean_stack p in
      if f.(3) = "ok" && m1 = impl && m2 = impl then ok id (if impl = p then "clean_fixpoint" else "+clean_changed")
      else mismatch id ("lazybuf:" ^ hex_of_bytes m1 ^ " stack:" ^ hex_of_bytes m2));
  reg "path_join" (fun f ->
      let id = f.(1) in
      let l = [bytes_of_hex f.(2); bytes_of_hex f.(3); bytes_of_hex f.(4)] in
      let impl = bytes_of_hex f.(6) in
      let m1 = V.go_join l and m2 = V.join_clean l in
      if f.(5) = "ok" && m1 = impl && m2 = impl then ok id (if impl = [] then "join_empty" else "+join")
      else mismatch id ("go_join:" ^ hex_of_bytes m1 ^ " join_clean:" ^ hex_of_bytes m2))
