open Drv_common
open Drv_tmpl

(* C14 streams
   url_attr id <element> <attribute> <rel> <quote> <static prefix> <value wire> <pre> <post> <outcome> <bytes written>
     oracle: V.c14_verdict (spec/UrlPrefixSpec.v) on the decoded attribute value of the REAL output
     (tokenizer specification, html.UnescapeString model, RFC 3986 split, WHATWG scheme);
     correspondence: the model of the engine (escape_text, escape_action, apply_chain) predicts
     the outcome and the bytes written.
   url_proc id <string> <normalised> <normalised twice> <query-escaped>
     oracle: V.c14_proc_ok; correspondence with normalize_url / query_escape_url. *)

let dot_pipe : V.pipe = { V.p_decls = []; p_cmds = [[V.ADot]] }

(* the model's run of  pre {{.}} post  with value v: Error code | Ok (chain, Some bytes | None = execution error) *)
let model_run (pre : V.n list) (post : V.n list) (v : V.value) =
  let code c = match c.V.c_err with Some e -> int_of_n e | None -> 0 in
  match V.escape_text false V.ctx0 pre with
  | V.EPanic -> Error (-1)
  | V.EOk (c, ed_pre, out_pre0) ->
    let out_pre = if ed_pre then out_pre0 else pre in
    if c.V.c_state = V.StError then Error (code c)
    else
      match V.escape_action [] c V.O dot_pipe V.esc_empty with
      | V.APanic _ -> Error (-1)
      | V.AOk (c1, e) ->
        if c1.V.c_state = V.StError then Error (code c1)
        else
          let chain = match e.V.e_action_edits with (_, s) :: _ -> s | [] -> [] in
          match V.escape_text false c1 post with
          | V.EPanic -> Error (-1)
          | V.EOk (c2, ed_post, out_post0) ->
            let out_post = if ed_post then out_post0 else post in
            if c2.V.c_state = V.StError then Error (code c2)
            else if c2.V.c_state <> V.StText then Error 4
            else Ok (chain, (match V.apply_chain chain v with Some o -> Some (out_pre @ o @ out_post) | None -> None))

let clause_name n =
  match int_of_n n with
  | 1 -> "prefix_that_must_be_rejected_was_accepted"
  | 2 -> "javascript_prefix_accepted"
  | 3 -> "output_is_not_the_one_tag_with_the_attribute"
  | 4 -> "value_does_not_start_with_the_decoded_prefix"
  | 5 -> "data_in_query_or_fragment_not_fully_percent_encoded"
  | 6 -> "data_after_trusted_resource_url_prefix_not_fully_percent_encoded"
  | 7 -> "dot_dot_data_accepted_after_trusted_resource_url_prefix"
  | 8 -> "data_leaves_the_directory_of_the_trusted_resource_url_prefix"
  | 9 -> "data_not_normalised"
  | 10 -> "scheme_changed"
  | 11 -> "authority_changed"
  | 12 -> "path_query_or_fragment_structure_changed"
  | k -> "clause_" ^ string_of_int k

let lower s = V.to_lower_bytes (bytes_of_string s)

let () =
  reg "url_attr" (fun f ->
      let id = f.(1) in
      let str i = string_of_bytes (bytes_of_hex f.(i)) in
      let elem = str 2 and attr = str 3 and rel = str 4 in
      let p = bytes_of_hex f.(6) and w = str 7 in
      let pre = bytes_of_hex f.(8) and post = bytes_of_hex f.(9) in
      let outcome = f.(10) and out = bytes_of_hex f.(11) in
      if outcome = "parseerr" then ok id "parse_error"
      else begin
        let v = value_of_wire w in
        let data = V.stringify v in
        let cls = V.url_class (lower elem) (lower attr) (lower rel) in
        let accepted = (outcome = "ok" || outcome = "execerr") in
        let fails = V.c14_verdict cls (lower elem) (lower attr) p data accepted (if outcome = "ok" then Some out else None) in
        let untagged = List.filter (fun (_, d) -> int_of_n d = 0) fails in
        (* correspondence *)
        let m = model_run pre post v in
        let m_outcome = match m with
          | Error c -> if c = -1 then "panic" else Printf.sprintf "escape:%d" c
          | Ok (_, Some _) -> "ok"
          | Ok (_, None) -> "execerr" in
        let m_out = match m with Ok (_, Some o) -> Some o | _ -> None in
        (* an uncovered failing clause first; then a broken correspondence; a case is reported under a
           finding only if every failing clause is covered by one *)
        match untagged with
        | (cl, _) :: _ -> specfail id (clause_name cl)
        | [] ->
          if m_outcome <> outcome then mismatch id m_outcome
          else if outcome = "ok" && m_out <> Some out then mismatch id ("ok:" ^ (match m_out with Some o -> hex_of_bytes o | None -> "?"))
          else match fails with
            | (cl, d) :: _ -> specfail id (clause_name cl ^ "\tfinding=D" ^ string_of_int (int_of_n d))
            | [] ->
              match m with
              | Ok (_, Some _) ->
                let dp = V.html_unescape p in
                if int_of_n cls = 2 then ok id "+tru_escaped" else if V.has_qf dp then ok id "+query_escaped"
                else if V.opt_bytes_eqb (V.uri_authority (dp @ V.normalize_url data)) (V.uri_authority dp) then ok id "+normalised"
                else
                  (* the data became (part of) the authority: it left the component the author put it in *)
                  specfail id "data_after_path_or_scheme_prefix_became_the_authority\tfinding=D26"
              | Ok (_, None) -> ok id "+rejected_at_execution"
              | Error _ -> ok id (if V.must_reject V.html_unescape p then "reject_required" else "reject")
      end);
  reg "url_proc" (fun f ->
      let id = f.(1) in
      let s = bytes_of_hex f.(2) and n1 = bytes_of_hex f.(3) and n2 = bytes_of_hex f.(4) and q = bytes_of_hex f.(5) in
      if not (V.c14_proc_ok s n1 n2 q) then specfail id "url_processor_output_not_normalised_or_not_escaped"
      else if V.normalize_url s <> n1 then mismatch id ("normalize:" ^ hex_of_bytes (V.normalize_url s))
      else if V.query_escape_url s <> q then mismatch id ("escape:" ^ hex_of_bytes (V.query_escape_url s))
      else ok id (if n1 = s then "unchanged" else "+changed"));
  reg_bridges "C14" V.c14_bridges

(* url_range id <element> <attribute> <prefix> <sep> <hostile item> <outcome inert> <out> <outcome hostile> <out>
   (harness/cmd/run/c14.go): <E A="PREFIX{{range .}}{{.}}SEP{{end}}"> with [a b] and with [a HOSTILE].  The data of
   the second iteration must stay inside its component: the URL the browser sees (attribute value after character
   reference decoding) has the same RFC 3986 shape - scheme, authority, number of path segments, number of query
   parameters, fragment or not - with both lists.  Finding D49 (recorded): the action is sanitized for the
   prefix of the FIRST iteration only. *)
let () =
  reg "url_range" (fun f ->
      let id = f.(1) in
      let e = lower (string_of_bytes (bytes_of_hex f.(2))) and a = lower (string_of_bytes (bytes_of_hex f.(3))) in
      let sep = string_of_bytes (bytes_of_hex f.(5)) in
      if f.(7) <> "ok" || f.(9) <> "ok" then ok id ("refused:" ^ f.(7) ^ "/" ^ f.(9))
      else
        match V.first_attr_value e a (bytes_of_hex f.(8)), V.first_attr_value e a (bytes_of_hex f.(10)) with
        | Some vi, Some vh ->
          if V.same_url_shape vi vh then ok id "+same_url_shape"
          else specfail id ("data_of_a_later_iteration_changes_the_url_components" ^ (if sep <> "" then "\tfinding=D49" else ""))
        | _ -> specfail id "one_tag_one_attribute_expected")

(* url_eff id <element> <attribute> <how> <t1> <t2> <cond> <value wire> <effective prefix> <template text> <outcome> <out>
   (harness/cmd/run/c14.go): the static text before the action is put together by a branch or by a {{template}} call.
   The specification is the one of the straight-line template with the effective prefix: when the engine accepts,
   every clause of c14_verdict must hold for (effective prefix, data); it may refuse more than the straight-line
   template (ambiguous prefixes), never less.  No model is involved. *)
let () =
  reg "url_eff" (fun f ->
      let id = f.(1) in
      let str i = string_of_bytes (bytes_of_hex f.(i)) in
      let elem = str 2 and attr = str 3 in
      let w = str 8 in
      let p = bytes_of_hex f.(9) in
      let outcome = f.(11) and out = bytes_of_hex f.(12) in
      if outcome = "parseerr" then ok id "parse_error"
      else begin
        let v = value_of_wire w in
        let data = V.stringify v in
        let cls = V.url_class (lower elem) (lower attr) [] in
        let accepted = (outcome = "ok" || outcome = "execerr") in
        let fails = V.c14_verdict cls (lower elem) (lower attr) p data accepted (if outcome = "ok" then Some out else None) in
        match List.filter (fun (_, d) -> int_of_n d = 0) fails with
        | (cl, _) :: _ -> specfail id ("composed_prefix:" ^ clause_name cl)
        | [] ->
          (match fails with
           | (cl, d) :: _ -> specfail id ("composed_prefix:" ^ clause_name cl ^ "\tfinding=D" ^ string_of_int (int_of_n d))
           | [] -> ok id (if outcome = "ok" then "+composed_accepted" else if accepted then "+composed_rejected_at_execution" else "composed_refused"))
      end)
