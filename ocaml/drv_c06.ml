open Drv_common
open Drv_histprop

(* C06: execution results depend only on definitions, name and data, not on history. *)
let () =
  hist_stream "hist06" (fun es _ ->
      let bad = ref None in
      List.iter (fun e ->
          if !bad = None then begin
            if e.rep = "0" then bad := Some (Printf.sprintf "op%d:repeating_the_call_changed_the_result" e.k)
            else if not e.fresh_same then
              bad := Some (Printf.sprintf "op%d:result_differs_from_fresh_set:%s_vs_%s%s" e.k e.res e.fresh_res
                             (if e.opening <> [] then "\tfinding=D1" else if e.shared <> [] then "\tfinding=D6" else ""))
          end) es;
      !bad)
