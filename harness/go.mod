module verifharness

go 1.16

require (
	github.com/google/safehtml v0.0.0
	golang.org/x/text v0.3.3
)

replace github.com/google/safehtml => /repo
