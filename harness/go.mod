module verifharness

go 1.16

require (
	github.com/google/safehtml v0.0.0
	golang.org/x/net v0.34.0
	golang.org/x/text v0.21.0
)

replace github.com/google/safehtml => /repo

// golang.org/x/net (its html tokenizer is the differential target of the HTOK stream, -tags htok only)
// requires newer x/text, x/crypto, x/term than the offline module cache holds; none of their packages is
// imported through x/net/html, so they are pinned to the cached versions (x/text stays the v0.3.3 that
// /repo/go.mod requires).
replace golang.org/x/text => golang.org/x/text v0.3.3

replace golang.org/x/crypto => golang.org/x/crypto v0.0.0-20210921155107-089bfa567519

replace golang.org/x/term => golang.org/x/term v0.6.0
