// Package rxsrc recovers the source text of the package-level regular expressions of the tree under
// verification by parsing its Go source (go/ast), so that neither the translator nor the runner
// links against the (unexported, easily refactored) pattern variables.
package rxsrc

import (
	"go/ast"
	"go/parser"
	"go/token"
	"os"
	"path/filepath"
	"strconv"
	"strings"
)

// Names are the patterns the model knows about, with the directory (relative to the repo root) they live in.
var Names = map[string]string{
	"startsWithAlphabetPattern":             ".",
	"onlyAlphanumericsOrHyphenPattern":      ".",
	"safeURLPattern":                        ".",
	"trustedResourceURLFormatMarkerPattern": ".",
	"identifierPattern":                     ".",
	"safeRegularPropertyValuePattern":       ".",
	"safeEnumPropertyValuePattern":          ".",
	"cssStringPattern":                      ".",
	"invalidCSSSelectorRune":                ".",
	"jsIdentifierPattern":                   ".",
	"safeTrustedResourceURLPrefixPattern":   "internal/safehtmlutil",
	"urlDoubleDotSegmentPattern":            "internal/safehtmlutil",
	"dataAttributeNamePattern":              "template",
	"endsWithCharRefPrefixPattern":          "template",
	"startsWithFullySpecifiedSchemePattern": "template",
	"endsWithPercentEncodingPrefixPattern":  "template",
	"containsWhitespaceOrControlPattern":    "template",
}

// constString evaluates a constant string expression made of literals, + and parentheses.
func constString(e ast.Expr) (string, bool) {
	switch x := e.(type) {
	case *ast.BasicLit:
		if x.Kind != token.STRING {
			return "", false
		}
		s, err := strconv.Unquote(x.Value)
		return s, err == nil
	case *ast.ParenExpr:
		return constString(x.X)
	case *ast.BinaryExpr:
		if x.Op != token.ADD {
			return "", false
		}
		a, ok1 := constString(x.X)
		b, ok2 := constString(x.Y)
		return a + b, ok1 && ok2
	}
	return "", false
}

// Sources returns name -> pattern source for every `var name = regexp.MustCompile(<constant string>)`
// found in the non-test, non-verif files of the three packages. Patterns that are missing or not a
// constant expression are simply absent from the map.
func Sources(repo string) map[string]string {
	out := map[string]string{}
	for _, dir := range []string{".", "internal/safehtmlutil", "template"} {
		files, _ := filepath.Glob(filepath.Join(repo, dir, "*.go"))
		for _, f := range files {
			if strings.HasSuffix(f, "_test.go") || strings.HasSuffix(f, "verif_hooks.go") {
				continue
			}
			src, err := os.ReadFile(f)
			if err != nil {
				continue
			}
			file, err := parser.ParseFile(token.NewFileSet(), f, src, 0)
			if err != nil {
				continue
			}
			ast.Inspect(file, func(n ast.Node) bool {
				vs, ok := n.(*ast.ValueSpec)
				if !ok || len(vs.Names) != len(vs.Values) {
					return true
				}
				for i, v := range vs.Values {
					call, ok := v.(*ast.CallExpr)
					if !ok || len(call.Args) != 1 {
						continue
					}
					sel, ok := call.Fun.(*ast.SelectorExpr)
					if !ok || sel.Sel.Name != "MustCompile" {
						continue
					}
					if pkg, ok := sel.X.(*ast.Ident); !ok || pkg.Name != "regexp" {
						continue
					}
					if s, ok := constString(call.Args[0]); ok {
						if want, known := Names[vs.Names[i].Name]; known && want == dir {
							out[vs.Names[i].Name] = s
						}
					}
				}
				return true
			})
		}
	}
	return out
}
