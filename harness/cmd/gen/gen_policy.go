package main

import (
	"bytes"
	"fmt"
	"sort"

	"github.com/google/safehtml/template"
)

func init() { generators = append(generators, genTemplateTables, genPolicy) }

func sortedKeys(m map[string]bool) []string {
	var l []string
	for k, v := range m {
		if v {
			l = append(l, k)
		}
	}
	sort.Strings(l)
	return l
}

func bytesList(l []string) string {
	var b bytes.Buffer
	b.WriteString("[")
	for i, s := range l {
		if i > 0 {
			b.WriteString("; ")
		}
		b.WriteString(coqBytes(s))
	}
	b.WriteString("]")
	return b.String()
}

// genTemplateTables dumps the small tables of transition.go / escape.go.
func genTemplateTables() {
	t := template.VerifTables()
	var b bytes.Buffer
	b.WriteString(genHeader)
	fmt.Fprintf(&b, "Definition T_specialElements : list bytes := %s.\n", bytesList(sortedKeys(t.SpecialElements)))
	fmt.Fprintf(&b, "Definition T_voidElements : list bytes := %s.\n", bytesList(sortedKeys(t.VoidElements)))
	fmt.Fprintf(&b, "(* delimEnds, indexed by delim (0 = none) *)\nDefinition T_delimEnds : list bytes := %s.\n", bytesList(t.DelimEnds))
	fmt.Fprintf(&b, "Definition T_tagEndSeparators : bytes := %s.\n", coqBytes(t.TagEndSeparators))
	fmt.Fprintf(&b, "Definition T_predefinedEscapers : list bytes := %s.\n", bytesList(sortedKeys(t.PredefinedEscapers)))
	var eq []string
	for k := range t.EquivEscapers {
		eq = append(eq, k)
	}
	sort.Strings(eq)
	b.WriteString("Definition T_equivEscapers : list (bytes * bytes) := [")
	for i, k := range eq {
		if i > 0 {
			b.WriteString("; ")
		}
		fmt.Fprintf(&b, "(%s, %s)", coqBytes(k), coqBytes(t.EquivEscapers[k]))
	}
	b.WriteString("].\n")
	fmt.Fprintf(&b, "Definition T_stateNames : list bytes := %s.\n", bytesList(t.StateNames))
	fmt.Fprintf(&b, "Definition T_delimNames : list bytes := %s.\n", bytesList(t.DelimNames))
	ok := len(t.StateNames) == 9 && len(t.DelimNames) == 4 && len(t.DelimEnds) == 4
	fmt.Fprintf(&b, "Definition translated_template_tables : bool := %v.\n", ok)
	writeIfChanged("GenTemplate.v", b.Bytes())
}

// genPolicy dumps the sanitization policy of sanitizers.go (reflection through the hook).
func genPolicy() {
	p := template.VerifPolicyTables()
	var b bytes.Buffer
	b.WriteString(genHeader)
	var scs []int
	for k := range p.ContextNames {
		scs = append(scs, k)
	}
	sort.Ints(scs)
	b.WriteString("(* sanitizationContext number -> (name, sanitizer function name, isEnum, isURLorTrustedResourceURL) *)\n")
	b.WriteString("Definition P_contexts : list (N * (bytes * bytes * bool * bool)) :=\n  [ ")
	for i, k := range scs {
		if i > 0 {
			b.WriteString(";\n    ")
		}
		fmt.Fprintf(&b, "(%d, (%s, %s, %v, %v))", k, coqBytes(p.ContextNames[k]), coqBytes(p.SanitizerNames[k]), p.IsEnum[k], p.IsURLOrTRU[k])
	}
	b.WriteString(" ].\n\n")

	b.WriteString("(* elementSpecificAttrValSanitizationContext: (attribute, element) -> context *)\n")
	b.WriteString("Definition P_elementSpecific : list (bytes * bytes * N) :=\n  [ ")
	var attrs []string
	for a := range p.ElementSpecific {
		attrs = append(attrs, a)
	}
	sort.Strings(attrs)
	first := true
	for _, a := range attrs {
		var els []string
		for e := range p.ElementSpecific[a] {
			els = append(els, e)
		}
		sort.Strings(els)
		for _, e := range els {
			if !first {
				b.WriteString(";\n    ")
			}
			first = false
			fmt.Fprintf(&b, "(%s, %s, %d)", coqBytes(a), coqBytes(e), p.ElementSpecific[a][e])
		}
	}
	b.WriteString(" ].\n\n")

	dumpMap := func(name, comment string, m map[string]int) {
		var ks []string
		for k := range m {
			ks = append(ks, k)
		}
		sort.Strings(ks)
		fmt.Fprintf(&b, "(* %s *)\nDefinition %s : list (bytes * N) :=\n  [ ", comment, name)
		for i, k := range ks {
			if i > 0 {
				b.WriteString(";\n    ")
			}
			fmt.Fprintf(&b, "(%s, %d)", coqBytes(k), m[k])
		}
		b.WriteString(" ].\n\n")
	}
	dumpMap("P_globalAttr", "globalAttrValSanitizationContext", p.GlobalAttr)
	dumpMap("P_elementContent", "elementContentSanitizationContext", p.ElementContent)
	fmt.Fprintf(&b, "Definition P_allowedVoid : list bytes := %s.\n", bytesList(sortedKeys(p.AllowedVoid)))
	fmt.Fprintf(&b, "Definition P_urlLinkRelVals : list bytes := %s.\n\n", bytesList(sortedKeys(p.URLLinkRelVals)))
	var en []string
	for k := range p.EnumValues {
		en = append(en, k)
	}
	sort.Strings(en)
	b.WriteString("(* enum sanitizer function name -> allowed words *)\nDefinition P_enumValues : list (bytes * list bytes) :=\n  [ ")
	for i, k := range en {
		if i > 0 {
			b.WriteString(";\n    ")
		}
		fmt.Fprintf(&b, "(%s, %s)", coqBytes(k), bytesList(sortedKeys(p.EnumValues[k])))
	}
	b.WriteString(" ].\n")
	writeIfChanged("GenPolicy.v", b.Bytes())
}
