// Command gen is the translator: it regenerates, from /repo's current working
// tree (linked in with -tags verif), every part of the Coq model that is data.
//
// usage: gen <outdir>     (writes <outdir>/Gen*.v, only touching files whose content changed)
package main

import (
	"bytes"
	"fmt"
	"io/ioutil"
	"os"
	"path/filepath"
	"regexp/syntax"
	"sort"
	"strings"
	"unicode"

	"verifharness/rxsrc"
)

var outdir string

func writeIfChanged(name string, content []byte) {
	p := filepath.Join(outdir, name)
	old, err := ioutil.ReadFile(p)
	if err == nil && bytes.Equal(old, content) {
		return
	}
	tmp := p + ".tmp"
	if err := ioutil.WriteFile(tmp, content, 0o644); err != nil {
		panic(err)
	}
	if err := os.Rename(tmp, p); err != nil {
		panic(err)
	}
	fmt.Fprintf(os.Stderr, "gen: updated %s\n", name)
}

// ---------------------------------------------------------------- regex

type rxErr struct{ msg string }

func ranges(pairs [][2]rune) string {
	var b strings.Builder
	b.WriteString("[")
	for i, p := range pairs {
		if i > 0 {
			b.WriteString("; ")
		}
		fmt.Fprintf(&b, "(%d, %d)", p[0], p[1])
	}
	b.WriteString("]")
	return b.String()
}

func foldOrbit(r rune) [][2]rune {
	set := map[rune]bool{r: true}
	for f := unicode.SimpleFold(r); f != r; f = unicode.SimpleFold(f) {
		set[f] = true
	}
	var rs []rune
	for x := range set {
		rs = append(rs, x)
	}
	sort.Slice(rs, func(i, j int) bool { return rs[i] < rs[j] })
	var out [][2]rune
	for _, x := range rs {
		out = append(out, [2]rune{x, x})
	}
	return out
}

func rx(re *syntax.Regexp) string {
	switch re.Op {
	case syntax.OpNoMatch:
		return "Emp"
	case syntax.OpEmptyMatch:
		return "Eps"
	case syntax.OpLiteral:
		var parts []string
		for _, r := range re.Rune {
			if re.Flags&syntax.FoldCase != 0 {
				parts = append(parts, "Cls "+ranges(foldOrbit(r)))
			} else {
				parts = append(parts, "Cls "+ranges([][2]rune{{r, r}}))
			}
		}
		return nest("Cat", parts, "Eps")
	case syntax.OpCharClass:
		var ps [][2]rune
		for i := 0; i+1 < len(re.Rune); i += 2 {
			ps = append(ps, [2]rune{re.Rune[i], re.Rune[i+1]})
		}
		if len(ps) == 0 {
			return "Emp"
		}
		return "Cls " + ranges(ps)
	case syntax.OpAnyCharNotNL:
		return "Cls [(0, 9); (11, 1114111)]"
	case syntax.OpAnyChar:
		return "Cls [(0, 1114111)]"
	case syntax.OpBeginLine:
		return "BeginLine"
	case syntax.OpEndLine:
		return "EndLine"
	case syntax.OpBeginText:
		return "BeginText"
	case syntax.OpEndText:
		return "EndText"
	case syntax.OpCapture:
		return rx(re.Sub[0])
	case syntax.OpStar:
		return "Star (" + rx(re.Sub[0]) + ")"
	case syntax.OpPlus:
		return "plus (" + rx(re.Sub[0]) + ")"
	case syntax.OpQuest:
		return "opt (" + rx(re.Sub[0]) + ")"
	case syntax.OpRepeat:
		sub := rx(re.Sub[0])
		var parts []string
		for i := 0; i < re.Min; i++ {
			parts = append(parts, sub)
		}
		if re.Max < 0 {
			parts = append(parts, "Star ("+sub+")")
		} else {
			for i := re.Min; i < re.Max; i++ {
				parts = append(parts, "opt ("+sub+")")
			}
		}
		return nest("Cat", parts, "Eps")
	case syntax.OpConcat:
		var parts []string
		for _, s := range re.Sub {
			parts = append(parts, rx(s))
		}
		return nest("Cat", parts, "Eps")
	case syntax.OpAlternate:
		var parts []string
		for _, s := range re.Sub {
			parts = append(parts, rx(s))
		}
		return nest("Alt", parts, "Emp")
	}
	panic(rxErr{fmt.Sprintf("unsupported regexp op %v in %q", re.Op, re.String())})
}

// cmt makes a string safe inside a Coq comment.
func cmt(s string) string {
	s = strings.ReplaceAll(s, "\"", "<dq>")
	s = strings.ReplaceAll(s, "*)", "* )")
	s = strings.ReplaceAll(s, "(*", "( *")
	return s
}

func nest(op string, parts []string, unit string) string {
	if len(parts) == 0 {
		return unit
	}
	if len(parts) == 1 {
		return parts[0]
	}
	return op + " (" + parts[0] + ") (" + nest(op, parts[1:], unit) + ")"
}

func parseRx(src string) *syntax.Regexp {
	re, err := syntax.Parse(src, syntax.Perl)
	if err != nil {
		panic(rxErr{err.Error()})
	}
	return re.Simplify()
}

func safeRx(src string) (out string, ok bool, msg string) {
	defer func() {
		if r := recover(); r != nil {
			if e, isRx := r.(rxErr); isRx {
				out, ok, msg = "Emp", false, e.msg
				return
			}
			panic(r)
		}
	}()
	return rx(parseRx(src)), true, ""
}

func stripCaptures(re *syntax.Regexp) *syntax.Regexp {
	for re.Op == syntax.OpCapture {
		re = re.Sub[0]
	}
	return re
}

// splitSafeURL recovers the two alternatives of safeURLPattern:  ^(?:(SCHEME):|REL)
func splitSafeURL(src string) (alt1, alt2, schemeCls string, ok bool, msg string) {
	defer func() {
		if r := recover(); r != nil {
			if e, isRx := r.(rxErr); isRx {
				alt1, alt2, schemeCls, ok, msg = "Emp", "Emp", "[]", false, e.msg
				return
			}
			panic(r)
		}
	}()
	fail := func(m string) { panic(rxErr{"safeURLPattern: " + m}) }
	re := parseRx(src)
	if re.Op != syntax.OpConcat || len(re.Sub) != 2 || re.Sub[0].Op != syntax.OpBeginText {
		fail("expected ^(...)")
	}
	alt := stripCaptures(re.Sub[1])
	if alt.Op != syntax.OpAlternate || len(alt.Sub) != 2 {
		fail("expected a two-way alternation after ^")
	}
	a1 := alt.Sub[0]
	if a1.Op != syntax.OpConcat || len(a1.Sub) != 2 || a1.Sub[0].Op != syntax.OpCapture ||
		a1.Sub[1].Op != syntax.OpLiteral || string(a1.Sub[1].Rune) != ":" || a1.Sub[1].Flags&syntax.FoldCase != 0 {
		fail("first alternative is not (capture):")
	}
	cap := a1.Sub[0].Sub[0]
	if cap.Op != syntax.OpPlus || cap.Sub[0].Op != syntax.OpCharClass {
		fail("capture is not class+")
	}
	var ps [][2]rune
	for i := 0; i+1 < len(cap.Sub[0].Rune); i += 2 {
		ps = append(ps, [2]rune{cap.Sub[0].Rune[i], cap.Sub[0].Rune[i+1]})
	}
	return rx(a1), rx(alt.Sub[1]), ranges(ps), true, ""
}

func genRegex() {
	// pattern sources are read from the Go source (go/ast), not through variables of the package:
	// a refactoring that renames or removes a pattern variable leaves the harness buildable and shows
	// up as "not translated"
	all := rxsrc.Sources(repoRoot())
	var names []string
	for k := range rxsrc.Names {
		names = append(names, k)
	}
	sort.Strings(names)
	var b bytes.Buffer
	b.WriteString("(* GENERATED by harness/cmd/gen from /repo's working tree. Do not edit. *)\n")
	b.WriteString("From V Require Import lib.Base lib.Regex.\nLocal Open Scope N_scope.\n\n")
	var bad []string
	for _, n := range names {
		src, present := all[n]
		out, ok, msg := "Emp", false, "pattern variable not found in the source (or not a constant regexp.MustCompile argument)"
		if present {
			out, ok, msg = safeRx(src)
		}
		fmt.Fprintf(&b, "(* %s = %s *)\n", n, cmt(all[n]))
		if !ok {
			bad = append(bad, n)
			fmt.Fprintf(&b, "(* NOT TRANSLATED: %s *)\n", cmt(msg))
		}
		fmt.Fprintf(&b, "Definition G_%s : regex :=\n  %s.\n", n, out)
		fmt.Fprintf(&b, "Definition translated_%s : bool := %v.\n\n", n, ok)
	}
	a1, a2, cls, ok, msg := splitSafeURL(all["safeURLPattern"])
	if !ok {
		fmt.Fprintf(&b, "(* NOT TRANSLATED: %s *)\n", cmt(msg))
	}
	fmt.Fprintf(&b, "(* the two alternatives of safeURLPattern after the leading ^, and the class of the captured scheme *)\n")
	fmt.Fprintf(&b, "Definition G_safeURL_scheme_alt : regex :=\n  %s.\n", a1)
	fmt.Fprintf(&b, "Definition G_safeURL_rel_alt : regex :=\n  %s.\n", a2)
	fmt.Fprintf(&b, "Definition G_safeURL_scheme_class : list (N * N) := %s.\n", cls)
	fmt.Fprintf(&b, "Definition translated_safeURL_split : bool := %v.\n\n", ok)
	b.WriteString("Definition all_regexes : list (bytes * regex) :=\n  [ ")
	for i, n := range names {
		if i > 0 {
			b.WriteString(";\n    ")
		}
		fmt.Fprintf(&b, "(B \"%s\", G_%s)", n, n)
	}
	b.WriteString(" ].\n")
	writeIfChanged("GenRegex.v", b.Bytes())
}

// generators is filled by the init functions of the gen_*.go files.
var generators = []func(){genRegex}

// coqBytes renders a byte string as a Coq term of type bytes: printable ASCII without
// double quotes as B "...", anything else as an explicit list (DESIGN F.5).
func coqBytes(s string) string {
	printable := true
	for i := 0; i < len(s); i++ {
		if s[i] < 0x20 || s[i] > 0x7e || s[i] == '"' {
			printable = false
		}
	}
	if printable {
		return "(B \"" + s + "\")"
	}
	var parts []string
	for i := 0; i < len(s); i++ {
		parts = append(parts, fmt.Sprint(int(s[i])))
	}
	return "[" + strings.Join(parts, "; ") + "]"
}

// repoRoot is the tree under verification: /repo, or $VERIF_REPO (a scratch copy used when
// evaluating seeded changes without touching /repo).
func repoRoot() string {
	if d := os.Getenv("VERIF_REPO"); d != "" {
		return d
	}
	return "/repo"
}

const genHeader = "(* GENERATED by harness/cmd/gen from /repo's working tree. Do not edit. *)\nFrom V Require Import lib.Base.\nLocal Open Scope N_scope.\n\n"

func main() {
	if len(os.Args) != 2 {
		fmt.Fprintln(os.Stderr, "usage: gen <outdir>")
		os.Exit(2)
	}
	outdir = os.Args[1]
	for _, g := range generators {
		g()
	}
}
