package main

// Translator section "locks" (C09, DESIGN F.4): the per-function lock/access summary of
// /repo/template/template.go and /repo/template/escape.go, recovered from syntax alone
// (go/parser, go/ast; no go/types).
//
// For every function/method, in statement order:
//   - x.mu.Lock() on the name space mutex sets *locked*; `defer ...Unlock()` keeps it to the end of
//     the function, an explicit Unlock() clears it;
//   - every selector on a tracked field is recorded as a read or a write (assignment LHS, map-index
//     assignment, delete, op-assign, ++/--, `*tmpl = ...` as a write of every Template field)
//     together with the current *locked*;
//   - calls to functions/methods of the package are recorded as call edges, calls on text/template
//     values as CallText, with the current *locked*;
//   - closures are walked at their definition site.
// Types are recovered by a small syntactic environment (receiver, parameters, :=, range, type
// switches, struct declarations of the package, a hand table for text/template and parse).
// Whatever cannot be classified is not guessed: translated_locks becomes false and the reason is
// written as a comment.

import (
	"bytes"
	"fmt"
	"go/ast"
	"go/parser"
	"go/token"
	"path/filepath"
	"sort"
	"strings"
)

func init() { generators = append(generators, genLocks) }

var repoTemplateDir = repoRoot() + "/template"

var lkWalkedFiles = []string{"template.go", "escape.go"}

// tracked (owner type, field) -> emitted name
var lkTracked = map[string]string{
	"Template.escapeErr":        "Template.escapeErr",
	"Template.text":             "Template.text",
	"Template.Tree":             "Template.Tree",
	"nameSpace.set":             "ns.set",
	"nameSpace.escaped":         "ns.escaped",
	"nameSpace.cspCompatible":   "ns.cspCompatible",
	"nameSpace.esc":             "ns.esc",
	"escaper.output":            "esc.output",
	"escaper.derived":           "esc.derived",
	"escaper.called":            "esc.called",
	"escaper.actionNodeEdits":   "esc.actionNodeEdits",
	"escaper.templateNodeEdits": "esc.templateNodeEdits",
	"escaper.textNodeEdits":     "esc.textNodeEdits",
	"template.Template.Tree":    "text.Tree",
	"parse.Tree.Root":           "node.Root",
	"parse.ActionNode.Pipe":     "node.Pipe",
	"parse.TemplateNode.Pipe":   "node.Pipe",
	"parse.PipeNode.Cmds":       "node.Cmds",
	"parse.CommandNode.Args":    "node.Args",
	"parse.TemplateNode.Name":   "node.Name",
	"parse.TextNode.Text":       "node.Text",
	"parse.ListNode.Nodes":      "node.Nodes",
	"parse.BranchNode.List":     "node.List",
	"parse.BranchNode.ElseList": "node.List",
	"parse.BranchNode.Pipe":     "node.Pipe",
}

// field names that must be classified whenever they appear in a selector
var lkTrackedNames = map[string]bool{
	"escapeErr": true, "text": true, "Tree": true, "set": true, "escaped": true, "cspCompatible": true,
	"esc": true, "output": true, "derived": true, "called": true, "actionNodeEdits": true,
	"templateNodeEdits": true, "textNodeEdits": true, "Pipe": true, "Cmds": true, "Args": true,
	"Name": true, "Text": true, "Root": true,
}

// fields of the external types that matter (type expressions in Go syntax)
var lkExtFields = map[string]map[string]string{
	"template.Template":    {"Tree": "*parse.Tree"},
	"parse.Tree":           {"Root": "*parse.ListNode", "Name": "string", "ParseName": "string"},
	"parse.ListNode":       {"Nodes": "[]parse.Node"},
	"parse.ActionNode":     {"Pipe": "*parse.PipeNode", "Line": "int"},
	"parse.PipeNode":       {"Cmds": "[]*parse.CommandNode", "Decl": "[]*parse.VariableNode", "Line": "int"},
	"parse.CommandNode":    {"Args": "[]parse.Node"},
	"parse.TemplateNode":   {"Name": "string", "Pipe": "*parse.PipeNode", "Line": "int"},
	"parse.TextNode":       {"Text": "[]byte"},
	"parse.BranchNode":     {"List": "*parse.ListNode", "ElseList": "*parse.ListNode", "Pipe": "*parse.PipeNode", "Line": "int"},
	"parse.IfNode":         {"BranchNode": "parse.BranchNode"},
	"parse.RangeNode":      {"BranchNode": "parse.BranchNode"},
	"parse.WithNode":       {"BranchNode": "parse.BranchNode"},
	"parse.IdentifierNode": {"Ident": "string"},
}
var lkExtEmbeds = map[string][]string{
	"template.Template": {"Tree"},
	"parse.IfNode":      {"BranchNode"},
	"parse.RangeNode":   {"BranchNode"},
	"parse.WithNode":    {"BranchNode"},
}

// result types of the external functions/methods that matter
var lkExtResults = map[string][]string{
	"template.New":                       {"*template.Template"},
	"template.Template.New":              {"*template.Template"},
	"template.Template.Lookup":           {"*template.Template"},
	"template.Template.Templates":        {"[]*template.Template"},
	"template.Template.Parse":            {"*template.Template", "error"},
	"template.Template.Clone":            {"*template.Template", "error"},
	"template.Template.AddParseTree":     {"*template.Template", "error"},
	"template.Template.Funcs":            {"*template.Template"},
	"template.Template.Option":           {"*template.Template"},
	"template.Template.Delims":           {"*template.Template"},
	"template.Template.Name":             {"string"},
	"template.Template.DefinedTemplates": {"string"},
	"template.Template.Execute":          {"error"},
	"template.Template.ExecuteTemplate":  {"error"},
	"parse.Tree.Copy":                    {"*parse.Tree"},
}

type lkAccess struct {
	kind          string // Acc | Call | CallText
	name          string
	write, locked bool
	pos           string
}

type lkFunc struct {
	name string
	acc  []lkAccess
}

type lkWalker struct {
	fset      *token.FileSet
	structs   map[string]map[string]ast.Expr // local struct -> field -> type
	embeds    map[string][]string
	named     map[string]ast.Expr // local named non-struct types -> underlying
	results   map[string][]ast.Expr
	funcs     map[string]bool // declared functions and "T.m" methods
	methNames map[string]bool // every method name declared on a package type
	imports   map[string]bool
	env       []map[string]ast.Expr
	aliases   []map[string]string
	locked    bool
	deferred  bool
	cur       *lkFunc
	bad       []string
}

func lkParseType(s string) ast.Expr {
	e, err := parser.ParseExpr(s)
	if err != nil {
		panic(err)
	}
	return e
}

func (w *lkWalker) posOf(n ast.Node) string {
	p := w.fset.Position(n.Pos())
	return fmt.Sprintf("%s:%d", filepath.Base(p.Filename), p.Line)
}

func (w *lkWalker) fail(n ast.Node, format string, a ...interface{}) {
	fn := "?"
	if w.cur != nil {
		fn = w.cur.name
	}
	w.bad = append(w.bad, fmt.Sprintf("%s (%s): %s", w.posOf(n), fn, fmt.Sprintf(format, a...)))
}

// ---- types

func lkDeref(t ast.Expr) ast.Expr {
	for {
		switch x := t.(type) {
		case *ast.StarExpr:
			t = x.X
		case *ast.ParenExpr:
			t = x.X
		default:
			return t
		}
	}
}

// typeName gives "Template", "template.Template", "parse.Tree", ... or "".
func lkTypeName(t ast.Expr) string {
	if t == nil {
		return ""
	}
	switch x := lkDeref(t).(type) {
	case *ast.Ident:
		return x.Name
	case *ast.SelectorExpr:
		if p, ok := x.X.(*ast.Ident); ok {
			return p.Name + "." + x.Sel.Name
		}
	}
	return ""
}

// field returns the type of field f of the named type tn, the owner type where it is declared and
// the chain of embedded fields crossed to reach it.
func (w *lkWalker) field(tn, f string, depth int) (ast.Expr, string, []string) {
	if depth > 4 || tn == "" {
		return nil, "", nil
	}
	if fs, ok := w.structs[tn]; ok {
		if t, ok := fs[f]; ok {
			return t, tn, nil
		}
		for _, e := range w.embeds[tn] {
			if t, owner, chain := w.field(lkTypeName(fs[e]), f, depth+1); t != nil {
				return t, owner, append([]string{tn + "." + e}, chain...)
			}
		}
		return nil, "", nil
	}
	if fs, ok := lkExtFields[tn]; ok {
		if t, ok := fs[f]; ok {
			return lkParseType(t), tn, nil
		}
		for _, e := range lkExtEmbeds[tn] {
			if t, owner, chain := w.field(lkTypeName(lkParseType(fs[e])), f, depth+1); t != nil {
				return t, owner, append([]string{tn + "." + e}, chain...)
			}
		}
	}
	return nil, "", nil
}

func (w *lkWalker) known(tn string) bool {
	if _, ok := w.structs[tn]; ok {
		return true
	}
	if _, ok := lkExtFields[tn]; ok {
		return true
	}
	if _, ok := w.named[tn]; ok {
		return true
	}
	return false
}

func (w *lkWalker) push() {
	w.env = append(w.env, map[string]ast.Expr{})
	w.aliases = append(w.aliases, map[string]string{})
}
func (w *lkWalker) pop() {
	w.env = w.env[:len(w.env)-1]
	w.aliases = w.aliases[:len(w.aliases)-1]
}
func (w *lkWalker) bind(name string, t ast.Expr) {
	if name == "_" || name == "" {
		return
	}
	w.env[len(w.env)-1][name] = t // t may be nil = unknown, still shadows
	delete(w.aliases[len(w.aliases)-1], name)
}
func (w *lkWalker) lookup(name string) (ast.Expr, bool) {
	for i := len(w.env) - 1; i >= 0; i-- {
		if t, ok := w.env[i][name]; ok {
			return t, true
		}
	}
	return nil, false
}
func (w *lkWalker) aliasOf(name string) string {
	for i := len(w.env) - 1; i >= 0; i-- {
		if _, ok := w.env[i][name]; ok {
			return w.aliases[i][name]
		}
	}
	return ""
}

// underlying resolves local named map/slice types.
func (w *lkWalker) underlying(t ast.Expr) ast.Expr {
	for i := 0; i < 4; i++ {
		if id, ok := t.(*ast.Ident); ok {
			if u, ok := w.named[id.Name]; ok {
				t = u
				continue
			}
		}
		break
	}
	return t
}

func (w *lkWalker) resultTypes(call *ast.CallExpr) []ast.Expr {
	switch f := call.Fun.(type) {
	case *ast.Ident:
		if r, ok := w.results[f.Name]; ok {
			if _, shadow := w.lookup(f.Name); !shadow {
				return r
			}
		}
		switch f.Name {
		case "new":
			if len(call.Args) == 1 {
				return []ast.Expr{&ast.StarExpr{X: call.Args[0]}}
			}
		case "make":
			if len(call.Args) >= 1 {
				return []ast.Expr{call.Args[0]}
			}
		case "append":
			if len(call.Args) >= 1 {
				return []ast.Expr{w.typeOf(call.Args[0])}
			}
		}
		// conversion to a local named type
		if w.known(f.Name) && len(call.Args) == 1 {
			return []ast.Expr{f}
		}
	case *ast.SelectorExpr:
		if p, ok := f.X.(*ast.Ident); ok && w.imports[p.Name] {
			if _, shadow := w.lookup(p.Name); !shadow {
				if r, ok := lkExtResults[p.Name+"."+f.Sel.Name]; ok {
					return lkParseTypes(r)
				}
				return nil
			}
		}
		tn := lkTypeName(w.typeOf(f.X))
		if r, ok := w.results[tn+"."+f.Sel.Name]; ok {
			return r
		}
		if r, ok := lkExtResults[tn+"."+f.Sel.Name]; ok {
			return lkParseTypes(r)
		}
	case *ast.ParenExpr:
		// conversion (*T)(x)
		return []ast.Expr{f.X}
	}
	return nil
}

func lkParseTypes(l []string) []ast.Expr {
	var out []ast.Expr
	for _, s := range l {
		out = append(out, lkParseType(s))
	}
	return out
}

// typeOf returns a type expression or nil when unknown.
func (w *lkWalker) typeOf(e ast.Expr) ast.Expr {
	switch x := e.(type) {
	case *ast.ParenExpr:
		return w.typeOf(x.X)
	case *ast.Ident:
		t, _ := w.lookup(x.Name)
		return t
	case *ast.SelectorExpr:
		if p, ok := x.X.(*ast.Ident); ok && w.imports[p.Name] {
			if _, shadow := w.lookup(p.Name); !shadow {
				return nil
			}
		}
		t, _, _ := w.field(lkTypeName(w.typeOf(x.X)), x.Sel.Name, 0)
		return t
	case *ast.StarExpr:
		if t := w.typeOf(x.X); t != nil {
			if s, ok := t.(*ast.StarExpr); ok {
				return s.X
			}
		}
		return nil
	case *ast.UnaryExpr:
		if x.Op == token.AND {
			if t := w.typeOf(x.X); t != nil {
				return &ast.StarExpr{X: t}
			}
		}
		return nil
	case *ast.CompositeLit:
		return x.Type
	case *ast.IndexExpr:
		switch t := w.underlying(lkDerefParen(w.typeOf(x.X))).(type) {
		case *ast.MapType:
			return t.Value
		case *ast.ArrayType:
			return t.Elt
		}
		return nil
	case *ast.SliceExpr:
		return w.typeOf(x.X)
	case *ast.TypeAssertExpr:
		return x.Type
	case *ast.CallExpr:
		if r := w.resultTypes(x); len(r) >= 1 {
			return r[0]
		}
		return nil
	case *ast.FuncLit:
		return x.Type
	}
	return nil
}

func lkDerefParen(t ast.Expr) ast.Expr {
	if p, ok := t.(*ast.ParenExpr); ok {
		return p.X
	}
	return t
}

func lkIsRefType(t ast.Expr) bool {
	switch t.(type) {
	case *ast.MapType, *ast.ArrayType:
		return true
	}
	return false
}

// ---- recording

func (w *lkWalker) rec(kind, name string, write bool, n ast.Node) {
	w.cur.acc = append(w.cur.acc, lkAccess{kind, name, write, w.locked, w.posOf(n)})
}

// mark records the entry/exit of a region that is executed conditionally or repeatedly.
func (w *lkWalker) mark(name string, n ast.Node) { w.rec("Acc", name, false, n) }

// selector classifies X.f (X already walked) and records it.
func (w *lkWalker) selector(x *ast.SelectorExpr, write bool) {
	f := x.Sel.Name
	if p, ok := x.X.(*ast.Ident); ok && w.imports[p.Name] {
		if _, shadow := w.lookup(p.Name); !shadow {
			return // qualified identifier
		}
	}
	tn := lkTypeName(w.typeOf(x.X))
	if tn == "" || !w.known(tn) {
		if lkTrackedNames[f] {
			w.fail(x, "cannot classify selector .%s: type of the operand is unknown", f)
		}
		return
	}
	_, owner, chain := w.field(tn, f, 0)
	if owner == "" {
		// a method value or a field of no interest; a tracked name on a known tracked owner type
		// would have been found
		return
	}
	for _, c := range chain { // promoted through embedded fields: those are read
		if name, ok := lkTracked[c]; ok {
			w.rec("Acc", name, false, x)
		}
	}
	if name, ok := lkTracked[owner+"."+f]; ok {
		w.rec("Acc", name, write, x)
	}
}

func (w *lkWalker) isNsMutex(e ast.Expr) bool {
	s, ok := e.(*ast.SelectorExpr)
	if !ok || s.Sel.Name != "mu" {
		return false
	}
	tn := lkTypeName(w.typeOf(s.X))
	_, owner, _ := w.field(tn, "mu", 0)
	return owner == "nameSpace"
}

var lkLockMethods = map[string]bool{"Lock": true, "Unlock": true, "RLock": true, "RUnlock": true, "TryLock": true, "TryRLock": true}

// lockCall handles x.mu.Lock()/Unlock(); returns true when the call was a lock operation.
func (w *lkWalker) lockCall(call *ast.CallExpr, deferred bool) bool {
	s, ok := call.Fun.(*ast.SelectorExpr)
	if !ok || !lkLockMethods[s.Sel.Name] {
		return false
	}
	if !w.isNsMutex(s.X) {
		w.fail(call, "%s on something that is not the name space mutex (a second mutex)", s.Sel.Name)
		return true
	}
	// the path to the mutex is read
	if inner, ok := s.X.(*ast.SelectorExpr); ok {
		w.expr(inner.X)
	}
	switch s.Sel.Name {
	case "Lock":
		if deferred {
			w.fail(call, "deferred Lock")
			return true
		}
		w.rec("Acc", "ns.mu.Lock", true, call) // locked = state before the operation
		if w.locked {
			w.fail(call, "Lock while the mutex is already held in this function")
		}
		w.locked = true
	case "Unlock":
		if deferred {
			if !w.locked {
				w.fail(call, "deferred Unlock without a preceding Lock")
			}
			w.deferred = true
			return true
		}
		if !w.locked {
			w.fail(call, "Unlock without a preceding Lock in this function")
		}
		if w.deferred {
			w.fail(call, "explicit Unlock after a deferred Unlock")
		}
		w.locked = false
	default:
		w.fail(call, "%s on the name space mutex", s.Sel.Name)
	}
	return true
}

func (w *lkWalker) call(call *ast.CallExpr) {
	if w.lockCall(call, false) {
		return
	}
	switch f := call.Fun.(type) {
	case *ast.Ident:
		_, shadow := w.lookup(f.Name)
		switch {
		case f.Name == "delete" && !shadow && len(call.Args) == 2:
			w.lhs(&ast.IndexExpr{X: call.Args[0], Index: call.Args[1], Lbrack: call.Pos()})
			return
		case w.funcs[f.Name] && !shadow:
			w.args(call)
			w.rec("Call", f.Name, false, call)
			return
		}
		// builtin, conversion, or a call of a function value (closures are walked where defined)
		w.args(call)
	case *ast.SelectorExpr:
		if p, ok := f.X.(*ast.Ident); ok && w.imports[p.Name] {
			if _, shadow := w.lookup(p.Name); !shadow {
				w.args(call) // function of another package
				return
			}
		}
		w.expr(f.X)
		w.args(call)
		tn := lkTypeName(w.typeOf(f.X))
		switch {
		case w.funcs[tn+"."+f.Sel.Name]:
			w.rec("Call", tn+"."+f.Sel.Name, false, call)
		case tn == "template.Template":
			w.rec("CallText", f.Sel.Name, false, call)
		case strings.HasPrefix(tn, "parse."):
			w.rec("Acc", "node.method", false, call) // Copy, String, Position ...: reads the nodes
		case tn == "":
			if w.methNames[f.Sel.Name] {
				w.fail(call, "call of .%s on an operand of unknown type", f.Sel.Name)
			}
		default:
			// a field of function type or a method promoted from an embedded type
			if t, owner, _ := w.field(tn, f.Sel.Name, 0); t != nil && owner != "" {
				w.selector(f, false)
			} else if w.methNames[f.Sel.Name] {
				// promoted method: resolve through the embedded fields
				done := false
				for _, e := range w.embeds[tn] {
					en := lkTypeName(w.structs[tn][e])
					if w.funcs[en+"."+f.Sel.Name] {
						w.rec("Call", en+"."+f.Sel.Name, false, call)
						done = true
					}
				}
				if !done {
					w.fail(call, "cannot resolve method %s.%s", tn, f.Sel.Name)
				}
			}
		}
	case *ast.FuncLit:
		w.args(call)
		w.funcLit(f)
	default:
		w.expr(call.Fun)
		w.args(call)
	}
}

func (w *lkWalker) args(call *ast.CallExpr) {
	for _, a := range call.Args {
		w.expr(a)
	}
}

func (w *lkWalker) funcLit(f *ast.FuncLit) {
	// walked at the definition site with the current lock state; its own lock operations are
	// not understood
	w.push()
	w.bindFields(f.Type.Params)
	w.bindFields(f.Type.Results)
	before, beforeDef := w.locked, w.deferred
	w.mark("#cond", f.Body)
	w.block(f.Body)
	w.mark("#end", f.Body)
	if w.locked != before || w.deferred != beforeDef {
		w.fail(f, "closure changes the lock state")
		w.locked, w.deferred = before, beforeDef
	}
	w.pop()
}

func (w *lkWalker) bindFields(fl *ast.FieldList) {
	if fl == nil {
		return
	}
	for _, f := range fl.List {
		t := f.Type
		if el, ok := t.(*ast.Ellipsis); ok {
			t = &ast.ArrayType{Elt: el.Elt}
		}
		for _, n := range f.Names {
			w.bind(n.Name, t)
		}
	}
}

// expr walks an expression in read position.
func (w *lkWalker) expr(e ast.Expr) {
	switch x := e.(type) {
	case nil:
	case *ast.Ident, *ast.BasicLit:
	case *ast.ParenExpr:
		w.expr(x.X)
	case *ast.SelectorExpr:
		w.expr(x.X)
		w.selector(x, false)
	case *ast.StarExpr:
		w.expr(x.X)
		if lkTypeName(w.typeOf(x.X)) == "Template" {
			for _, f := range []string{"escapeErr", "text", "Tree"} {
				w.rec("Acc", lkTracked["Template."+f], false, x)
			}
		}
	case *ast.UnaryExpr:
		w.expr(x.X)
	case *ast.BinaryExpr:
		w.expr(x.X)
		if x.Op == token.LAND || x.Op == token.LOR {
			w.mark("#cond", x.Y)
			w.expr(x.Y)
			w.mark("#end", x.Y)
		} else {
			w.expr(x.Y)
		}
	case *ast.IndexExpr:
		w.expr(x.X)
		w.expr(x.Index)
	case *ast.SliceExpr:
		w.expr(x.X)
		w.expr(x.Low)
		w.expr(x.High)
		w.expr(x.Max)
	case *ast.TypeAssertExpr:
		w.expr(x.X)
	case *ast.CallExpr:
		w.call(x)
	case *ast.CompositeLit:
		for _, el := range x.Elts {
			if kv, ok := el.(*ast.KeyValueExpr); ok {
				if _, isStruct := w.structs[lkTypeName(x.Type)]; !isStruct {
					w.expr(kv.Key)
				}
				w.expr(kv.Value)
			} else {
				w.expr(el)
			}
		}
	case *ast.KeyValueExpr:
		w.expr(x.Key)
		w.expr(x.Value)
	case *ast.FuncLit:
		w.funcLit(x)
	case *ast.ArrayType, *ast.MapType, *ast.FuncType, *ast.InterfaceType, *ast.StructType, *ast.ChanType, *ast.Ellipsis:
	default:
		w.fail(e, "expression form %T not understood", e)
	}
}

// lhs walks an expression in write position.
func (w *lkWalker) lhs(e ast.Expr) {
	switch x := e.(type) {
	case *ast.Ident:
	case *ast.ParenExpr:
		w.lhs(x.X)
	case *ast.SelectorExpr:
		w.expr(x.X)
		w.selector(x, true)
	case *ast.IndexExpr:
		w.expr(x.Index)
		switch a := x.X.(type) {
		case *ast.SelectorExpr:
			w.expr(a.X)
			w.selector(a, true)
		case *ast.Ident:
			if al := w.aliasOf(a.Name); al != "" {
				w.fail(x, "write through %s, an alias of the tracked field %s", a.Name, al)
			}
		default:
			w.expr(x.X)
		}
	case *ast.StarExpr:
		w.expr(x.X)
		tn := lkTypeName(w.typeOf(x.X))
		switch {
		case tn == "Template":
			for _, f := range []string{"escapeErr", "text", "Tree"} {
				w.rec("Acc", lkTracked["Template."+f], true, x)
			}
		case tn == "":
			w.fail(x, "store through a pointer of unknown type")
		case tn == "nameSpace" || tn == "escaper" || tn == "template.Template" || strings.HasPrefix(tn, "parse."):
			w.fail(x, "store through a pointer of type %s", tn)
		}
	default:
		w.fail(e, "assignment target %T not understood", e)
	}
}

func (w *lkWalker) define(name *ast.Ident, t ast.Expr, rhs ast.Expr) {
	w.bind(name.Name, t)
	w.noteAlias(name.Name, rhs)
}

func (w *lkWalker) noteAlias(name string, rhs ast.Expr) {
	if rhs == nil || name == "_" {
		return
	}
	if p, ok := rhs.(*ast.ParenExpr); ok {
		rhs = p.X
	}
	s, ok := rhs.(*ast.SelectorExpr)
	if !ok {
		return
	}
	tn := lkTypeName(w.typeOf(s.X))
	t, owner, _ := w.field(tn, s.Sel.Name, 0)
	if t == nil {
		return
	}
	if tracked, ok := lkTracked[owner+"."+s.Sel.Name]; ok && lkIsRefType(w.underlying(t)) {
		for i := len(w.env) - 1; i >= 0; i-- {
			if _, ok := w.env[i][name]; ok {
				w.aliases[i][name] = tracked
				return
			}
		}
	}
}

func (w *lkWalker) assign(s *ast.AssignStmt) {
	for _, r := range s.Rhs {
		w.expr(r)
	}
	def := s.Tok == token.DEFINE
	if !def {
		for _, l := range s.Lhs {
			w.lhs(l)
		}
		if s.Tok != token.ASSIGN { // op-assign also reads
			for _, l := range s.Lhs {
				w.expr(l)
			}
		}
	}
	// types of the (re)bound identifiers
	var types []ast.Expr
	switch {
	case len(s.Lhs) == len(s.Rhs):
		for _, r := range s.Rhs {
			types = append(types, w.typeOf(r))
		}
	case len(s.Rhs) == 1:
		switch r := s.Rhs[0].(type) {
		case *ast.CallExpr:
			types = w.resultTypes(r)
		case *ast.IndexExpr, *ast.TypeAssertExpr:
			types = []ast.Expr{w.typeOf(r), ast.NewIdent("bool")}
		}
	}
	for i, l := range s.Lhs {
		id, ok := l.(*ast.Ident)
		if !ok {
			continue
		}
		var t ast.Expr
		if i < len(types) {
			t = types[i]
		}
		var rhs ast.Expr
		if len(s.Lhs) == len(s.Rhs) {
			rhs = s.Rhs[i]
		}
		if def {
			w.define(id, t, rhs)
		} else {
			// plain assignment to an existing variable keeps its declared type, but may create an alias
			w.noteAlias(id.Name, rhs)
		}
	}
}

func lkTerminates(s ast.Stmt) bool {
	switch x := s.(type) {
	case *ast.ReturnStmt:
		return true
	case *ast.ExprStmt:
		if c, ok := x.X.(*ast.CallExpr); ok {
			if id, ok := c.Fun.(*ast.Ident); ok && id.Name == "panic" {
				return true
			}
			if se, ok := c.Fun.(*ast.SelectorExpr); ok {
				if p, ok := se.X.(*ast.Ident); ok && p.Name == "log" && strings.HasPrefix(se.Sel.Name, "Fatal") {
					return true
				}
			}
		}
	case *ast.BlockStmt:
		if len(x.List) > 0 {
			return lkTerminates(x.List[len(x.List)-1])
		}
	}
	return false
}

type lkState struct{ locked, deferred bool }

func (w *lkWalker) state() lkState     { return lkState{w.locked, w.deferred} }
func (w *lkWalker) setState(s lkState) { w.locked, w.deferred = s.locked, s.deferred }

// merge joins the lock states of the alternatives that fall through.
func (w *lkWalker) merge(n ast.Node, pre lkState, alts []lkState) {
	if len(alts) == 0 {
		w.setState(pre)
		return
	}
	for _, a := range alts[1:] {
		if a != alts[0] {
			w.fail(n, "the lock state differs between the branches")
		}
	}
	w.setState(alts[0])
}

func (w *lkWalker) block(b *ast.BlockStmt) bool {
	if b == nil {
		return false
	}
	w.push()
	defer w.pop()
	term := false
	for _, s := range b.List {
		term = w.stmt(s)
	}
	return term
}

func (w *lkWalker) stmt(s ast.Stmt) (terminates bool) {
	switch x := s.(type) {
	case nil, *ast.EmptyStmt, *ast.BranchStmt:
	case *ast.ExprStmt:
		w.expr(x.X)
		return lkTerminates(x)
	case *ast.AssignStmt:
		w.assign(x)
	case *ast.IncDecStmt:
		w.lhs(x.X)
		w.expr(x.X)
	case *ast.DeclStmt:
		if gd, ok := x.Decl.(*ast.GenDecl); ok {
			for _, sp := range gd.Specs {
				if vs, ok := sp.(*ast.ValueSpec); ok {
					for _, v := range vs.Values {
						w.expr(v)
					}
					for i, n := range vs.Names {
						t := vs.Type
						var rhs ast.Expr
						if i < len(vs.Values) && len(vs.Values) == len(vs.Names) {
							rhs = vs.Values[i]
							if t == nil {
								t = w.typeOf(rhs)
							}
						}
						w.define(n, t, rhs)
					}
				}
			}
		}
	case *ast.ReturnStmt:
		for _, r := range x.Results {
			w.expr(r)
		}
		return true
	case *ast.BlockStmt:
		return w.block(x)
	case *ast.DeferStmt:
		if !w.lockCall(x.Call, true) {
			w.call(x.Call)
		}
	case *ast.GoStmt:
		w.fail(x, "go statement")
	case *ast.LabeledStmt:
		return w.stmt(x.Stmt)
	case *ast.IfStmt:
		w.push()
		defer w.pop()
		w.stmt(x.Init)
		w.expr(x.Cond)
		pre := w.state()
		var alts []lkState
		w.mark("#cond", x.Body)
		t1 := w.block(x.Body)
		w.mark("#end", x.Body)
		if !t1 {
			alts = append(alts, w.state())
		}
		w.setState(pre)
		t2 := false
		if x.Else != nil {
			w.mark("#cond", x.Else)
			t2 = w.stmt(x.Else)
			w.mark("#end", x.Else)
			if !t2 {
				alts = append(alts, w.state())
			}
		} else {
			alts = append(alts, pre)
		}
		w.merge(x, pre, alts)
		return t1 && t2
	case *ast.ForStmt:
		w.push()
		defer w.pop()
		w.stmt(x.Init)
		w.expr(x.Cond)
		pre := w.state()
		w.mark("#cond", x.Body)
		t := w.block(x.Body)
		w.stmt(x.Post)
		w.mark("#end", x.Body)
		if !t && w.state() != pre {
			w.fail(x, "loop body changes the lock state")
		}
		w.setState(pre)
	case *ast.RangeStmt:
		w.push()
		defer w.pop()
		w.expr(x.X)
		var kt, vt ast.Expr
		switch t := w.underlying(lkDerefParen(w.typeOf(x.X))).(type) {
		case *ast.MapType:
			kt, vt = t.Key, t.Value
		case *ast.ArrayType:
			kt, vt = ast.NewIdent("int"), t.Elt
		}
		for i, e := range []ast.Expr{x.Key, x.Value} {
			if e == nil {
				continue
			}
			t := kt
			if i == 1 {
				t = vt
			}
			if id, ok := e.(*ast.Ident); ok && x.Tok == token.DEFINE {
				w.bind(id.Name, t)
			} else if x.Tok != token.DEFINE {
				w.lhs(e)
			}
		}
		pre := w.state()
		w.mark("#cond", x.Body)
		t := w.block(x.Body)
		w.mark("#end", x.Body)
		if !t && w.state() != pre {
			w.fail(x, "loop body changes the lock state")
		}
		w.setState(pre)
	case *ast.SwitchStmt:
		w.push()
		defer w.pop()
		w.stmt(x.Init)
		w.expr(x.Tag)
		return w.clauses(x, x.Body, nil, "")
	case *ast.TypeSwitchStmt:
		w.push()
		defer w.pop()
		w.stmt(x.Init)
		var bound string
		var subject ast.Expr
		switch a := x.Assign.(type) {
		case *ast.AssignStmt:
			if id, ok := a.Lhs[0].(*ast.Ident); ok {
				bound = id.Name
			}
			if ta, ok := a.Rhs[0].(*ast.TypeAssertExpr); ok {
				subject = ta.X
			}
		case *ast.ExprStmt:
			if ta, ok := a.X.(*ast.TypeAssertExpr); ok {
				subject = ta.X
			}
		}
		w.expr(subject)
		return w.clauses(x, x.Body, subject, bound)
	case *ast.SelectStmt, *ast.SendStmt:
		w.fail(x, "channel operation")
	default:
		w.fail(s, "statement form %T not understood", s)
	}
	return false
}

func (w *lkWalker) clauses(n ast.Node, body *ast.BlockStmt, subject ast.Expr, bound string) bool {
	pre := w.state()
	var alts []lkState
	hasDefault := false
	all := true
	for _, c := range body.List {
		cc := c.(*ast.CaseClause)
		w.setState(pre)
		w.push()
		if cc.List == nil {
			hasDefault = true
		}
		if subject == nil {
			for _, e := range cc.List {
				w.expr(e)
			}
		} else if bound != "" {
			if len(cc.List) == 1 {
				w.bind(bound, cc.List[0])
			} else {
				w.bind(bound, w.typeOf(subject))
			}
		}
		term := false
		w.mark("#cond", cc)
		for _, s := range cc.Body {
			term = w.stmt(s)
		}
		w.mark("#end", cc)
		w.pop()
		if !term {
			alts = append(alts, w.state())
			all = false
		}
	}
	if !hasDefault {
		alts = append(alts, pre)
		all = false
	}
	w.merge(n, pre, alts)
	return all
}

// ---- driver

func lkRecvName(fd *ast.FuncDecl) string {
	if fd.Recv == nil || len(fd.Recv.List) == 0 {
		return ""
	}
	return lkTypeName(fd.Recv.List[0].Type)
}

func lkFuncName(fd *ast.FuncDecl) string {
	if r := lkRecvName(fd); r != "" {
		return r + "." + fd.Name.Name
	}
	return fd.Name.Name
}

func analyseLocks() (funcs []lkFunc, bad []string) {
	defer func() { sort.Strings(bad) }()
	w := &lkWalker{
		fset: token.NewFileSet(), structs: map[string]map[string]ast.Expr{}, embeds: map[string][]string{},
		named: map[string]ast.Expr{}, results: map[string][]ast.Expr{}, funcs: map[string]bool{}, methNames: map[string]bool{},
	}
	paths, _ := filepath.Glob(filepath.Join(repoTemplateDir, "*.go"))
	sort.Strings(paths)
	files := map[string]*ast.File{}
	for _, p := range paths {
		base := filepath.Base(p)
		if strings.HasSuffix(base, "_test.go") || base == "verif_hooks.go" {
			continue
		}
		f, err := parser.ParseFile(w.fset, p, nil, 0)
		if err != nil {
			return nil, []string{"cannot parse " + p + ": " + err.Error()}
		}
		files[base] = f
		for _, d := range f.Decls {
			switch d := d.(type) {
			case *ast.GenDecl:
				for _, sp := range d.Specs {
					ts, ok := sp.(*ast.TypeSpec)
					if !ok {
						continue
					}
					if st, ok := ts.Type.(*ast.StructType); ok {
						fs := map[string]ast.Expr{}
						for _, fl := range st.Fields.List {
							if len(fl.Names) == 0 {
								n := lkTypeName(fl.Type)
								if i := strings.LastIndex(n, "."); i >= 0 {
									n = n[i+1:]
								}
								fs[n] = fl.Type
								w.embeds[ts.Name.Name] = append(w.embeds[ts.Name.Name], n)
							}
							for _, n := range fl.Names {
								fs[n.Name] = fl.Type
							}
						}
						w.structs[ts.Name.Name] = fs
					} else {
						w.named[ts.Name.Name] = ts.Type
					}
				}
			case *ast.FuncDecl:
				name := lkFuncName(d)
				w.funcs[name] = true
				if r := lkRecvName(d); r == "Template" || r == "escaper" || r == "nameSpace" {
					w.methNames[d.Name.Name] = true
				}
				var rs []ast.Expr
				if d.Type.Results != nil {
					for _, r := range d.Type.Results.List {
						k := len(r.Names)
						if k == 0 {
							k = 1
						}
						for i := 0; i < k; i++ {
							rs = append(rs, r.Type)
						}
					}
				}
				w.results[name] = rs
			}
		}
	}
	for m := range lkExtResults {
		if strings.HasPrefix(m, "template.Template.") {
			w.methNames[strings.TrimPrefix(m, "template.Template.")] = true
		}
	}
	// the mutex must be the only one, and where we expect it
	if ft, ok := w.structs["nameSpace"]["mu"]; !ok || lkTypeName(ft) != "sync.Mutex" {
		w.bad = append(w.bad, "nameSpace.mu is not a sync.Mutex field")
	}
	for tn, fs := range w.structs {
		for fn, ft := range fs {
			if n := lkTypeName(ft); (n == "sync.Mutex" || n == "sync.RWMutex") && !(tn == "nameSpace" && fn == "mu") {
				w.bad = append(w.bad, fmt.Sprintf("a second mutex: %s.%s", tn, fn))
			}
		}
	}
	// functions of the other files that are called from the walked ones must not be able to reach
	// tracked state: no receiver/parameter of a tracked owner type
	walked := map[string]bool{}
	for _, b := range lkWalkedFiles {
		walked[b] = true
	}
	external := map[string]string{}
	for base, f := range files {
		if walked[base] {
			continue
		}
		for _, d := range f.Decls {
			if fd, ok := d.(*ast.FuncDecl); ok {
				var why string
				check := func(fl *ast.FieldList) {
					if fl == nil {
						return
					}
					for _, p := range fl.List {
						t := p.Type
						if el, ok := t.(*ast.Ellipsis); ok {
							t = el.Elt
						}
						switch n := lkTypeName(t); {
						case n == "Template" || n == "nameSpace" || n == "escaper" || n == "template.Template" || n == "parse.Tree":
							why = n
						case strings.HasPrefix(n, "parse.") && strings.HasSuffix(n, "Node") && n != "parse.Node":
							why = n
						}
					}
				}
				check(fd.Recv)
				check(fd.Type.Params)
				if why != "" {
					external[lkFuncName(fd)] = base + " takes " + why
				}
			}
		}
	}
	defer func() {
		for _, fn := range funcs {
			for _, a := range fn.acc {
				if a.kind == "Call" {
					if why, ok := external[a.name]; ok {
						bad = append(bad, fmt.Sprintf("%s (%s): call of %s, not walked: %s", a.pos, fn.name, a.name, why))
					}
				}
			}
		}
	}()
	for _, base := range lkWalkedFiles {
		f := files[base]
		if f == nil {
			w.bad = append(w.bad, "missing "+base)
			continue
		}
		w.imports = map[string]bool{}
		for _, im := range f.Imports {
			p := strings.Trim(im.Path.Value, "\"")
			n := p[strings.LastIndex(p, "/")+1:]
			if im.Name != nil {
				n = im.Name.Name
			}
			w.imports[n] = true
		}
		for _, d := range f.Decls {
			switch d := d.(type) {
			case *ast.GenDecl:
				// a package-level variable initialised with a closure would escape the walk
				for _, sp := range d.Specs {
					if vs, ok := sp.(*ast.ValueSpec); ok {
						for _, v := range vs.Values {
							ast.Inspect(v, func(n ast.Node) bool {
								if fl, ok := n.(*ast.FuncLit); ok {
									w.cur = nil
									w.fail(fl, "package-level function literal")
								}
								return true
							})
						}
					}
				}
			case *ast.FuncDecl:
				if d.Body == nil {
					continue
				}
				fn := lkFunc{name: lkFuncName(d)}
				w.cur = &fn
				w.locked, w.deferred = false, false
				w.env, w.aliases = nil, nil
				w.push()
				w.bindFields(d.Recv)
				w.bindFields(d.Type.Params)
				w.bindFields(d.Type.Results)
				w.block(d.Body)
				w.pop()
				if w.locked && !w.deferred {
					w.fail(d, "function can return with the mutex held")
				}
				funcs = append(funcs, fn)
			}
		}
	}
	bad = w.bad
	return funcs, bad
}

// safeAnalyseLocks turns an unexpected failure of the walker into "not translated".
func safeAnalyseLocks() (funcs []lkFunc, bad []string) {
	defer func() {
		if r := recover(); r != nil {
			funcs, bad = nil, []string{fmt.Sprintf("walker failed: %v", r)}
		}
	}()
	return analyseLocks()
}

func genLocks() {
	funcs, bad := safeAnalyseLocks()
	var b bytes.Buffer
	b.WriteString(genHeader)
	b.WriteString("(* C09: per-function lock/access summaries of template/template.go and template/escape.go (DESIGN F.4).\n")
	b.WriteString("   Acc field write locked: a selector on a tracked field, [locked] = the name space mutex was taken\n")
	b.WriteString("   earlier in the same function and not yet released. Call/CallText: call edges with the same flag.\n")
	b.WriteString("   The pseudo field ns.mu.Lock records a Lock operation (flag = state before it); the pseudo fields\n")
	b.WriteString("   #cond / #end bracket a region that is executed conditionally or repeatedly (branch, loop body,\n")
	b.WriteString("   switch clause, closure body): what is outside every such region is executed whenever a later\n")
	b.WriteString("   entry of the same function is. *)\n")
	b.WriteString("Inductive access : Type :=\n  | Acc (field : bytes) (write locked : bool)\n  | Call (callee : bytes) (locked : bool)\n  | CallText (method : bytes) (locked : bool).\n\n")
	for _, m := range bad {
		fmt.Fprintf(&b, "(* NOT TRANSLATED: %s *)\n", cmt(m))
	}
	fmt.Fprintf(&b, "Definition translated_locks : bool := %v.\n\n", len(bad) == 0)
	b.WriteString("Definition lock_summaries : list (bytes * list access) :=\n  [ ")
	for i, f := range funcs {
		if i > 0 {
			b.WriteString(";\n    ")
		}
		fmt.Fprintf(&b, "(%s,\n      [", coqBytes(f.name))
		for j, a := range f.acc {
			if j > 0 {
				b.WriteString(";")
			}
			b.WriteString("\n        ")
			switch a.kind {
			case "Acc":
				fmt.Fprintf(&b, "Acc %s %v %v", coqBytes(a.name), a.write, a.locked)
			default:
				fmt.Fprintf(&b, "%s %s %v", a.kind, coqBytes(a.name), a.locked)
			}
			fmt.Fprintf(&b, " (* %s *)", a.pos)
		}
		b.WriteString(" ])")
	}
	b.WriteString(" ].\n")
	writeIfChanged("GenLocks.v", b.Bytes())
}
