package main

// Translator section "api" (property C19): the exported API surface of packages safehtml and
// safehtml/template, recovered from the syntax of /repo's working tree (go/parser, go/ast; no
// type information).  Files with a build constraint that is false without the verif tag
// (the add-only hook files) and _test.go files are skipped.
//
// Emitted into coq/gen/GenApi.v (data types in coq/lib/ApiSyntax.v):
//   gen_funcs : every exported function and method (any receiver) with parameter names, parameter
//               type expressions and result type expressions,
//   gen_types : every type declaration (exported or not) with its form (Defined | Alias) and the
//               shape of the type expression on its right-hand side,
//   gen_vars  : exported package-level variables,
//   translated_api : false if anything was met that this section cannot render faithfully.
//
// Package identifiers: "safehtml" and "template" for the two analysed packages, the full import
// path for every other package, the empty string for universe identifiers.

import (
	"bytes"
	"fmt"
	"go/ast"
	"go/build/constraint"
	"go/parser"
	"go/printer"
	"go/token"
	"io/ioutil"
	"path/filepath"
	"sort"
	"strings"
)

func init() { generators = append(generators, genApi) }

type apiPkg struct {
	id, dir, name string
}

var apiPkgs = []apiPkg{
	{"safehtml", repoRoot(), "safehtml"},
	{"template", repoRoot() + "/template", "template"},
}

var apiPathIDs = map[string]string{
	"github.com/google/safehtml":          "safehtml",
	"github.com/google/safehtml/template": "template",
}

type apiState struct {
	ok   bool
	why  []string
	fset *token.FileSet
}

func (s *apiState) fail(format string, a ...interface{}) {
	s.ok = false
	s.why = append(s.why, fmt.Sprintf(format, a...))
}

// apiFileActive reports whether the file is part of the package when built WITHOUT the verif tag.
func apiFileActive(f *ast.File) bool {
	for _, cg := range f.Comments {
		if cg.Pos() >= f.Package {
			break
		}
		for _, c := range cg.List {
			if !constraint.IsGoBuild(c.Text) {
				continue
			}
			x, err := constraint.Parse(c.Text)
			if err != nil {
				return false
			}
			return x.Eval(func(tag string) bool {
				switch tag {
				case "linux", "amd64", "gc", "unix", "cgo":
					return true
				}
				return strings.HasPrefix(tag, "go1.")
			})
		}
	}
	return true
}

func apiText(fset *token.FileSet, e ast.Expr) string {
	var b bytes.Buffer
	printer.Fprint(&b, fset, e)
	return strings.Join(strings.Fields(b.String()), " ")
}

type apiFile struct {
	pkg      apiPkg
	imports  map[string]string // local name -> import path
	declared map[string]bool   // type names declared in the package
}

func (s *apiState) texpr(f *apiFile, e ast.Expr) string {
	switch x := e.(type) {
	case *ast.Ident:
		if f.declared[x.Name] {
			return fmt.Sprintf("TName %s %s", coqBytes(f.pkg.id), coqBytes(x.Name))
		}
		return fmt.Sprintf("TName %s %s", coqBytes(""), coqBytes(x.Name))
	case *ast.SelectorExpr:
		if id, ok := x.X.(*ast.Ident); ok {
			if path, ok := f.imports[id.Name]; ok {
				pid := path
				if short, ok := apiPathIDs[path]; ok {
					pid = short
				}
				return fmt.Sprintf("TName %s %s", coqBytes(pid), coqBytes(x.Sel.Name))
			}
		}
		s.fail("%s: selector type %s does not start with an imported package", s.fset.Position(e.Pos()), apiText(s.fset, e))
		return fmt.Sprintf("TOther %s", coqBytes(apiText(s.fset, e)))
	case *ast.StarExpr:
		return "TPtr (" + s.texpr(f, x.X) + ")"
	case *ast.ParenExpr:
		return s.texpr(f, x.X)
	case *ast.ArrayType:
		if x.Len == nil {
			return "TSlice (" + s.texpr(f, x.Elt) + ")"
		}
		return fmt.Sprintf("TOther %s", coqBytes(apiText(s.fset, e)))
	case *ast.Ellipsis:
		return "TVariadic (" + s.texpr(f, x.Elt) + ")"
	case *ast.MapType:
		return "TMap (" + s.texpr(f, x.Key) + ") (" + s.texpr(f, x.Value) + ")"
	case *ast.FuncType:
		return "TFunc"
	case *ast.InterfaceType:
		return "TInterface"
	case *ast.ChanType, *ast.StructType:
		return fmt.Sprintf("TOther %s", coqBytes(apiText(s.fset, e)))
	}
	s.fail("%s: type expression %s of unexpected form %T", s.fset.Position(e.Pos()), apiText(s.fset, e), e)
	return fmt.Sprintf("TOther %s", coqBytes(apiText(s.fset, e)))
}

// embeddedName is the field name of an embedded field: the type name without * and package.
func embeddedName(e ast.Expr) string {
	switch x := e.(type) {
	case *ast.Ident:
		return x.Name
	case *ast.StarExpr:
		return embeddedName(x.X)
	case *ast.SelectorExpr:
		return x.Sel.Name
	case *ast.ParenExpr:
		return embeddedName(x.X)
	}
	return ""
}

func coqBool(b bool) string {
	if b {
		return "true"
	}
	return "false"
}

func coqList(items []string, indent string) string {
	if len(items) == 0 {
		return "[]"
	}
	return "[ " + strings.Join(items, ";\n"+indent+"  ") + " ]"
}

func genApi() {
	s := &apiState{ok: true, fset: token.NewFileSet()}
	var funcs, types, vars []string
	for _, p := range apiPkgs {
		names, err := filepath.Glob(filepath.Join(p.dir, "*.go"))
		if err != nil {
			s.fail("glob %s: %v", p.dir, err)
			continue
		}
		sort.Strings(names)
		var files []*ast.File
		for _, n := range names {
			if strings.HasSuffix(n, "_test.go") {
				continue
			}
			src, err := ioutil.ReadFile(n)
			if err != nil {
				s.fail("read %s: %v", n, err)
				continue
			}
			af, err := parser.ParseFile(s.fset, n, src, parser.ParseComments)
			if err != nil {
				s.fail("parse %s: %v", n, err)
				continue
			}
			if !apiFileActive(af) {
				continue
			}
			if af.Name.Name != p.name {
				s.fail("%s: package %s, expected %s", n, af.Name.Name, p.name)
				continue
			}
			files = append(files, af)
		}
		if len(files) == 0 {
			s.fail("no source files for package %s in %s", p.name, p.dir)
		}
		declared := map[string]bool{}
		for _, af := range files {
			for _, d := range af.Decls {
				if gd, ok := d.(*ast.GenDecl); ok && gd.Tok == token.TYPE {
					for _, sp := range gd.Specs {
						declared[sp.(*ast.TypeSpec).Name.Name] = true
					}
				}
			}
		}
		for _, af := range files {
			f := &apiFile{pkg: p, imports: map[string]string{}, declared: declared}
			for _, im := range af.Imports {
				path := strings.Trim(im.Path.Value, "\"`")
				local := path[strings.LastIndex(path, "/")+1:]
				if im.Name != nil {
					local = im.Name.Name
				}
				if local == "." {
					s.fail("%s: dot import of %s", s.fset.Position(im.Pos()), path)
					continue
				}
				f.imports[local] = path
			}
			for _, d := range af.Decls {
				switch x := d.(type) {
				case *ast.FuncDecl:
					if !x.Name.IsExported() {
						continue
					}
					if x.Type.TypeParams != nil {
						s.fail("%s: generic function %s", s.fset.Position(x.Pos()), x.Name.Name)
						continue
					}
					recv, recvPtr := "", false
					if x.Recv != nil && len(x.Recv.List) == 1 {
						t := x.Recv.List[0].Type
						if st, ok := t.(*ast.StarExpr); ok {
							recvPtr = true
							t = st.X
						}
						id, ok := t.(*ast.Ident)
						if !ok {
							s.fail("%s: receiver of %s is not a plain type name", s.fset.Position(x.Pos()), x.Name.Name)
							continue
						}
						recv = id.Name
					}
					var params, results []string
					for _, fl := range x.Type.Params.List {
						t := s.texpr(f, fl.Type)
						if len(fl.Names) == 0 {
							params = append(params, fmt.Sprintf("(%s, %s)", coqBytes(""), t))
						}
						for _, n := range fl.Names {
							params = append(params, fmt.Sprintf("(%s, %s)", coqBytes(n.Name), t))
						}
					}
					if x.Type.Results != nil {
						for _, fl := range x.Type.Results.List {
							t := s.texpr(f, fl.Type)
							k := len(fl.Names)
							if k == 0 {
								k = 1
							}
							for i := 0; i < k; i++ {
								results = append(results, t)
							}
						}
					}
					funcs = append(funcs, fmt.Sprintf("mk_func %s %s %s %s\n      %s\n      %s",
						coqBytes(p.id), coqBytes(recv), coqBool(recvPtr), coqBytes(x.Name.Name),
						"["+strings.Join(params, "; ")+"]", "["+strings.Join(results, "; ")+"]"))
				case *ast.GenDecl:
					switch x.Tok {
					case token.TYPE:
						for _, sp := range x.Specs {
							ts := sp.(*ast.TypeSpec)
							if ts.TypeParams != nil {
								s.fail("%s: generic type %s", s.fset.Position(ts.Pos()), ts.Name.Name)
								continue
							}
							form := "Defined"
							if ts.Assign.IsValid() {
								form = "Alias"
							}
							shape := "UOther"
							switch u := ts.Type.(type) {
							case *ast.Ident:
								if u.Name == "string" && !declared["string"] {
									shape = "UString"
								}
							case *ast.StructType:
								var fields []string
								for _, fl := range u.Fields.List {
									t := s.texpr(f, fl.Type)
									if len(fl.Names) == 0 {
										n := embeddedName(fl.Type)
										if n == "" {
											s.fail("%s: embedded field of unexpected form in %s", s.fset.Position(fl.Pos()), ts.Name.Name)
										}
										fields = append(fields, fmt.Sprintf("(%s, %s, true, %s)", coqBytes(n), coqBool(ast.IsExported(n)), t))
									}
									for _, n := range fl.Names {
										fields = append(fields, fmt.Sprintf("(%s, %s, false, %s)", coqBytes(n.Name), coqBool(n.IsExported()), t))
									}
								}
								shape = "(UStruct [" + strings.Join(fields, "; ") + "])"
							}
							types = append(types, fmt.Sprintf("mk_type %s %s %s %s %s",
								coqBytes(p.id), coqBytes(ts.Name.Name), coqBool(ts.Name.IsExported()), form, shape))
						}
					case token.VAR, token.CONST:
						// constants are listed with the variables (a typed constant carries its type; the type of
						// a group member without one is that of the previous typed member: iota groups)
						var lastType ast.Expr
						for _, sp := range x.Specs {
							vs := sp.(*ast.ValueSpec)
							if vs.Type != nil {
								lastType = vs.Type
							} else if len(vs.Values) > 0 || x.Tok == token.VAR {
								lastType = nil
							}
							for i, n := range vs.Names {
								if !n.IsExported() {
									continue
								}
								t := fmt.Sprintf("TOther %s", coqBytes("<inferred>"))
								if vs.Type != nil {
									t = s.texpr(f, vs.Type)
								} else if x.Tok == token.CONST && lastType != nil && len(vs.Values) == 0 {
									t = s.texpr(f, lastType)
								} else if lit, ok := litOf(vs.Values, i); ok && x.Tok == token.CONST {
									// an untyped constant with a literal value: its default type
									t = fmt.Sprintf("TName %s %s", coqBytes(""), coqBytes(map[token.Token]string{token.STRING: "string", token.INT: "int", token.FLOAT: "float64", token.CHAR: "rune", token.IMAG: "complex128"}[lit.Kind]))
								} else if i < len(vs.Values) {
									// T(x): a conversion (or call) names its type
									if call, ok := vs.Values[i].(*ast.CallExpr); ok && len(call.Args) == 1 {
										if id, ok := call.Fun.(*ast.Ident); ok {
											t = s.texpr(f, id)
										}
									}
								}
								vars = append(vars, fmt.Sprintf("mk_var %s %s (%s)", coqBytes(p.id), coqBytes(n.Name), t))
							}
						}
					}
				}
			}
		}
	}
	var b bytes.Buffer
	b.WriteString("(* GENERATED by harness/cmd/gen from /repo's working tree. Do not edit. *)\n")
	b.WriteString("From V Require Import lib.Base lib.ApiSyntax.\nLocal Open Scope N_scope.\n\n")
	b.WriteString("(* exported functions and methods of packages safehtml and safehtml/template (files built without the verif tag) *)\n")
	fmt.Fprintf(&b, "Definition gen_funcs : list api_func :=\n  %s.\n\n", coqList(funcs, "  "))
	b.WriteString("(* every type declaration of the two packages *)\n")
	fmt.Fprintf(&b, "Definition gen_types : list api_type :=\n  %s.\n\n", coqList(types, "  "))
	b.WriteString("(* exported package-level variables and constants *)\n")
	fmt.Fprintf(&b, "Definition gen_vars : list api_var :=\n  %s.\n\n", coqList(vars, "  "))
	for _, w := range s.why {
		fmt.Fprintf(&b, "(* NOT TRANSLATED: %s *)\n", cmt(w))
	}
	fmt.Fprintf(&b, "Definition translated_api : bool := %s.\n", coqBool(s.ok))
	writeIfChanged("GenApi.v", b.Bytes())
}

// litOf returns the i-th value when it is a basic literal.
func litOf(vals []ast.Expr, i int) (*ast.BasicLit, bool) {
	if i >= len(vals) {
		return nil, false
	}
	l, ok := vals[i].(*ast.BasicLit)
	return l, ok
}
