package main

import (
	"bytes"
	"fmt"
	"unicode"

	"github.com/google/safehtml"
)

func init() { generators = append(generators, genUnicode, genByteTables) }

// genUnicode dumps unicode.ToLower of the installed Go as (lo, hi, image of lo) runs, and the
// range table that coerceToUTF8InterchangeValid really uses.
func genUnicode() {
	var b bytes.Buffer
	b.WriteString(genHeader)
	b.WriteString("(* unicode.ToLower: r in [lo,hi] maps to img + (r - lo); runes outside every run map to themselves *)\n")
	b.WriteString("Definition to_lower_table : list (N * N * N) :=\n  [ ")
	first := true
	emit := func(lo, hi, img rune) {
		if !first {
			b.WriteString(";\n    ")
		}
		first = false
		fmt.Fprintf(&b, "(%d, %d, %d)", lo, hi, img)
	}
	var lo, hi, img rune = -1, -1, -1
	for r := rune(0); r <= unicode.MaxRune; r++ {
		l := unicode.ToLower(r)
		if l == r {
			if lo >= 0 {
				emit(lo, hi, img)
				lo = -1
			}
			continue
		}
		if lo >= 0 && r == hi+1 && l-r == img-lo {
			hi = r
			continue
		}
		if lo >= 0 {
			emit(lo, hi, img)
		}
		lo, hi, img = r, r, l
	}
	if lo >= 0 {
		emit(lo, hi, img)
	}
	b.WriteString(" ].\n\n")

	b.WriteString("(* controlAndNonCharacter as used by html.go (merged range table), as closed ranges *)\n")
	b.WriteString("Definition control_and_nonchar_table : list (N * N) :=\n  [ ")
	first = true
	add := func(lo, hi, stride uint32) {
		if stride == 1 {
			if !first {
				b.WriteString("; ")
			}
			first = false
			fmt.Fprintf(&b, "(%d, %d)", lo, hi)
			return
		}
		for x := lo; x <= hi; x += stride {
			if !first {
				b.WriteString("; ")
			}
			first = false
			fmt.Fprintf(&b, "(%d, %d)", x, x)
		}
	}
	t := safehtml.VerifControlAndNonCharacter()
	for _, r := range t.R16 {
		add(uint32(r.Lo), uint32(r.Hi), uint32(r.Stride))
	}
	for _, r := range t.R32 {
		add(r.Lo, r.Hi, r.Stride)
	}
	b.WriteString(" ].\n")
	writeIfChanged("GenUnicode.v", b.Bytes())
}

func genByteTables() {
	var b bytes.Buffer
	b.WriteString(genHeader)
	tabs := safehtml.VerifByteTables()
	for _, name := range []string{"asciiWhitespace", "srcsetMetachars"} {
		t, ok := tabs[name]
		fmt.Fprintf(&b, "(* urlset.go %s: the bytes for which the table is true *)\n", name)
		fmt.Fprintf(&b, "Definition T_%s : list N := [", name)
		first := true
		for i := 0; i < 256; i++ {
			if t[i] {
				if !first {
					b.WriteString("; ")
				}
				first = false
				fmt.Fprintf(&b, "%d", i)
			}
		}
		b.WriteString("].\n")
		fmt.Fprintf(&b, "Definition translated_%s : bool := %v.\n\n", name, ok)
	}
	mb := safehtml.VerifMatchingBrackets()
	b.WriteString("(* stylesheet.go matchingBrackets: closing bracket -> opening bracket *)\n")
	b.WriteString("Definition T_matchingBrackets : list (N * N) := [")
	first := true
	for i := 0; i < 256; i++ {
		if o, ok := mb[byte(i)]; ok {
			if !first {
				b.WriteString("; ")
			}
			first = false
			fmt.Fprintf(&b, "(%d, %d)", i, o)
		}
	}
	b.WriteString("].\n")
	writeIfChanged("GenTables.v", b.Bytes())
}
