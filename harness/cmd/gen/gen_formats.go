package main

// Translator section "formats": facts about fmt.Sprintf layouts that reflection cannot see,
// recovered from the syntax of /repo's working tree (go/parser, go/ast; no type information).
//
// ScriptFromDataAndConstant (script.go):
//   - the Sprintf layout string and the order of its three arguments (name, JSON text, script),
//   - which function produces the JSON text: json.Marshal(data), or an *json.Encoder (and then
//     whether SetEscapeHTML(false) is applied).
// If the body does not have the expected shape nothing is guessed:
// translated_script_layout is false and the pieces are empty.

import (
	"bytes"
	"fmt"
	"go/ast"
	"go/parser"
	"go/token"
	"os"
	"strconv"
	"strings"
)

func init() { generators = append(generators, genFormats) }

var repoScriptGo = repoRoot() + "/script.go"

type scriptLayout struct {
	ok                  bool
	why                 string
	layout              string
	prefix, mid, suffix string
	isMarshal           bool
	escapeHTML          bool
	producer            string
}

// unwrapConv strips conversions such as string(x) and parentheses.
func unwrapConv(e ast.Expr) ast.Expr {
	for {
		switch x := e.(type) {
		case *ast.ParenExpr:
			e = x.X
			continue
		case *ast.CallExpr:
			if id, ok := x.Fun.(*ast.Ident); ok && len(x.Args) == 1 && (id.Name == "string" || id.Name == "stringConstant") {
				e = x.Args[0]
				continue
			}
		}
		return e
	}
}

func identName(e ast.Expr) string {
	if id, ok := unwrapConv(e).(*ast.Ident); ok {
		return id.Name
	}
	return ""
}

// selCall reports whether call is X.Sel(...) with X an identifier, and returns X's name.
func selCall(call *ast.CallExpr, sel string) (string, bool) {
	s, ok := call.Fun.(*ast.SelectorExpr)
	if !ok || s.Sel.Name != sel {
		return "", false
	}
	id, ok := s.X.(*ast.Ident)
	if !ok {
		return "", false
	}
	return id.Name, true
}

func analyseScriptLayout() (r scriptLayout) {
	fail := func(format string, a ...interface{}) scriptLayout {
		return scriptLayout{ok: false, why: fmt.Sprintf(format, a...)}
	}
	fset := token.NewFileSet()
	f, err := parser.ParseFile(fset, repoScriptGo, nil, 0)
	if err != nil {
		return fail("cannot parse %s: %v", repoScriptGo, err)
	}
	// the import names of encoding/json and fmt
	jsonPkg, fmtPkg := "", ""
	for _, im := range f.Imports {
		p, _ := strconv.Unquote(im.Path.Value)
		name := p[strings.LastIndex(p, "/")+1:]
		if im.Name != nil {
			name = im.Name.Name
		}
		switch p {
		case "encoding/json":
			jsonPkg = name
		case "fmt":
			fmtPkg = name
		}
	}
	if fmtPkg == "" {
		return fail("script.go does not import fmt")
	}
	var fn *ast.FuncDecl
	for _, d := range f.Decls {
		if fd, ok := d.(*ast.FuncDecl); ok && fd.Recv == nil && fd.Name.Name == "ScriptFromDataAndConstant" {
			fn = fd
		}
	}
	if fn == nil || fn.Body == nil {
		return fail("func ScriptFromDataAndConstant not found")
	}
	var params []string
	for _, fl := range fn.Type.Params.List {
		for _, n := range fl.Names {
			params = append(params, n.Name)
		}
	}
	if len(params) != 3 {
		return fail("%s: expected 3 parameters, found %d", fset.Position(fn.Pos()), len(params))
	}
	pName, pData, pScript := params[0], params[1], params[2]

	// every fmt.Sprintf call of the body; exactly one is expected, inside a return statement
	var sprintfs []*ast.CallExpr
	var inReturn = map[*ast.CallExpr]bool{}
	ast.Inspect(fn.Body, func(n ast.Node) bool {
		if rs, ok := n.(*ast.ReturnStmt); ok {
			ast.Inspect(rs, func(m ast.Node) bool {
				if c, ok := m.(*ast.CallExpr); ok {
					if x, ok := selCall(c, "Sprintf"); ok && x == fmtPkg {
						inReturn[c] = true
					}
				}
				return true
			})
		}
		if c, ok := n.(*ast.CallExpr); ok {
			if x, ok := selCall(c, "Sprintf"); ok && x == fmtPkg {
				sprintfs = append(sprintfs, c)
			}
		}
		return true
	})
	if len(sprintfs) != 1 || !inReturn[sprintfs[0]] {
		return fail("%s: expected exactly one fmt.Sprintf call, in a return statement; found %d", fset.Position(fn.Pos()), len(sprintfs))
	}
	call := sprintfs[0]
	pos := fset.Position(call.Pos())
	if len(call.Args) != 4 {
		return fail("%s: Sprintf with %d arguments, expected layout + 3", pos, len(call.Args))
	}
	lit, ok := call.Args[0].(*ast.BasicLit)
	if !ok || lit.Kind != token.STRING {
		return fail("%s: Sprintf layout is not a string literal", pos)
	}
	layout, err := strconv.Unquote(lit.Value)
	if err != nil {
		return fail("%s: cannot unquote layout", pos)
	}
	// layout = prefix %s mid %s suffix %s, no other verb
	parts := strings.Split(layout, "%s")
	if len(parts) != 4 || parts[3] != "" || strings.Contains(strings.Join(parts, ""), "%") {
		return fail("%s: layout %q is not of the shape <text>%%s<text>%%s<text>%%s", pos, layout)
	}
	// argument order: name, JSON text, script
	if identName(call.Args[1]) != pName {
		return fail("%s: first Sprintf operand is not parameter %s", pos, pName)
	}
	if identName(call.Args[3]) != pScript {
		return fail("%s: third Sprintf operand is not parameter %s", pos, pScript)
	}
	r = scriptLayout{layout: layout, prefix: parts[0], mid: parts[1], suffix: parts[2]}

	// where does the second operand come from?
	arg2 := unwrapConv(call.Args[2])
	// (a) an identifier assigned from json.Marshal(data)
	// (b) buf.String() / buf.Bytes() of a buffer written by a json.NewEncoder(&buf).Encode(data)
	var jsonVar, bufVar string
	switch x := arg2.(type) {
	case *ast.Ident:
		jsonVar = x.Name
	case *ast.CallExpr:
		if b, ok := selCall(x, "String"); ok && len(x.Args) == 0 {
			bufVar = b
		} else if b, ok := selCall(x, "Bytes"); ok && len(x.Args) == 0 {
			bufVar = b
		}
	}
	if jsonVar == "" && bufVar == "" {
		return fail("%s: second Sprintf operand is neither a variable nor buf.String()/buf.Bytes()", pos)
	}
	if jsonPkg == "" {
		return fail("script.go does not import encoding/json")
	}
	// Scan the statements of the body in order. The identifier naming the package may be shadowed
	// by a local variable of the same name *after* the statement that declares it (as in the
	// original code: json, err := json.Marshal(data)), so the producer is looked up on the
	// right-hand sides as they are met.
	marshalFound, encFound := false, false
	encVars := map[string]string{} // encoder variable -> buffer variable
	escapeOff := false
	encodeCalls := 0
	unexpected := ""
	ast.Inspect(fn.Body, func(n ast.Node) bool {
		switch st := n.(type) {
		case *ast.AssignStmt:
			if len(st.Rhs) == 1 {
				if c, ok := st.Rhs[0].(*ast.CallExpr); ok {
					if x, ok := selCall(c, "Marshal"); ok && x == jsonPkg && len(st.Lhs) == 2 && identName(st.Lhs[0]) == jsonVar && jsonVar != "" {
						if len(c.Args) == 1 && identName(c.Args[0]) == pData {
							marshalFound = true
						} else {
							unexpected = "json.Marshal is not applied to parameter " + pData
						}
					}
					if x, ok := selCall(c, "NewEncoder"); ok && x == jsonPkg && len(st.Lhs) == 1 && len(c.Args) == 1 {
						target := ""
						if u, ok := c.Args[0].(*ast.UnaryExpr); ok && u.Op == token.AND {
							target = identName(u.X)
						} else {
							target = identName(c.Args[0])
						}
						encVars[identName(st.Lhs[0])] = target
					}
				}
			}
		case *ast.CallExpr:
			if x, ok := selCall(st, "SetEscapeHTML"); ok {
				if _, isEnc := encVars[x]; isEnc && len(st.Args) == 1 {
					if identName(st.Args[0]) == "false" {
						escapeOff = true
					} else if identName(st.Args[0]) != "true" {
						unexpected = "SetEscapeHTML with a non-constant operand"
					}
				}
			}
			if x, ok := selCall(st, "Encode"); ok {
				if b, isEnc := encVars[x]; isEnc && b == bufVar && bufVar != "" {
					encodeCalls++
					if len(st.Args) == 1 && identName(st.Args[0]) == pData {
						encFound = true
					} else {
						unexpected = "Encoder.Encode is not applied to parameter " + pData
					}
				}
			}
		}
		return true
	})
	if unexpected != "" {
		return fail("%s: %s", pos, unexpected)
	}
	switch {
	case marshalFound && jsonVar != "":
		r.isMarshal, r.escapeHTML, r.producer = true, true, jsonPkg+".Marshal("+pData+")"
	case encFound && encodeCalls == 1:
		r.isMarshal, r.escapeHTML = false, !escapeOff
		r.producer = fmt.Sprintf("%s.NewEncoder(&%s).Encode(%s), SetEscapeHTML(false) applied: %v", jsonPkg, bufVar, pData, escapeOff)
	default:
		return fail("%s: the JSON text is produced neither by %s.Marshal(%s) nor by a single Encoder.Encode(%s)", pos, jsonPkg, pData, pData)
	}
	r.ok = true
	return r
}

func genFormats() {
	r := analyseScriptLayout()
	var b bytes.Buffer
	b.WriteString(genHeader)
	b.WriteString("(* Format strings and formatting entry points recovered from the syntax of /repo's working tree. *)\n\n")
	b.WriteString("(* ---- ScriptFromDataAndConstant (script.go) ---- *)\n")
	if r.ok {
		fmt.Fprintf(&b, "(* Sprintf layout %s, operands (name, JSON text, script); JSON text produced by %s *)\n", cmt(strconv.Quote(r.layout)), cmt(r.producer))
	} else {
		fmt.Fprintf(&b, "(* NOT TRANSLATED: %s *)\n", cmt(r.why))
		fmt.Fprintf(os.Stderr, "gen: formats: %s\n", r.why)
	}
	fmt.Fprintf(&b, "Definition script_layout_prefix : bytes := %s.\n", coqBytesOrNil(r.prefix))
	fmt.Fprintf(&b, "Definition script_layout_mid : bytes := %s.\n", coqBytesOrNil(r.mid))
	fmt.Fprintf(&b, "Definition script_layout_suffix : bytes := %s.\n", coqBytesOrNil(r.suffix))
	fmt.Fprintf(&b, "Definition json_producer_is_marshal : bool := %v.\n", r.ok && r.isMarshal)
	fmt.Fprintf(&b, "Definition json_escape_html : bool := %v.\n", r.ok && r.escapeHTML)
	fmt.Fprintf(&b, "Definition translated_script_layout : bool := %v.\n", r.ok)
	writeIfChanged("GenFormats.v", b.Bytes())
}

func coqBytesOrNil(s string) string {
	if s == "" {
		return "[]"
	}
	return coqBytes(s)
}
