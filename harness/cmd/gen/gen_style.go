package main

// Translator section for C15/C16: recovers, from the SYNTAX of /repo/style.go and
// /repo/stylesheet.go (go/parser + go/ast, no type information),
//
//   - the field names of StyleProperties in declaration order,
//   - the ORDERED emission list of StyleFromProperties (which field, which CSS property
//     name, which kind of value treatment) from its statement sequence,
//   - the InnocuousPropertyValue constant,
//   - the layout pieces of CSSRule's fmt.Sprintf("%s{%s}", selector, style.String()).
//
// Where a statement does not have the expected shape nothing is guessed: the list is cut
// and `translated_style_fields` / `translated_cssrule_layout` become false, which breaks the
// `*_ok` side conditions of proofs/StyleFacts.v / proofs/CssRuleFacts.v.

import (
	"bytes"
	"fmt"
	"go/ast"
	"go/parser"
	"go/printer"
	"go/token"
	"os"
	"path/filepath"
	"strconv"
	"strings"
)

func init() { generators = append(generators, genStyle) }

func styleRepoDir() string {
	if d := os.Getenv("VERIF_REPO"); d != "" {
		return d
	}
	return "/repo"
}

func styleSrc(fset *token.FileSet, n ast.Node) string {
	var b bytes.Buffer
	if err := printer.Fprint(&b, fset, n); err != nil {
		return "<unprintable>"
	}
	// normalise white space so that gofmt-neutral re-indentation does not matter
	return strings.Join(strings.Fields(b.String()), " ")
}

func styleFuncDecl(f *ast.File, name string) *ast.FuncDecl {
	for _, d := range f.Decls {
		if fd, ok := d.(*ast.FuncDecl); ok && fd.Recv == nil && fd.Name.Name == name {
			return fd
		}
	}
	return nil
}

func styleStringLit(e ast.Expr) (string, bool) {
	bl, ok := e.(*ast.BasicLit)
	if !ok || bl.Kind != token.STRING {
		return "", false
	}
	s, err := strconv.Unquote(bl.Value)
	if err != nil {
		return "", false
	}
	return s, true
}

// `properties.X`
func stylePropSel(e ast.Expr) (string, bool) {
	se, ok := e.(*ast.SelectorExpr)
	if !ok {
		return "", false
	}
	id, ok := se.X.(*ast.Ident)
	if !ok || id.Name != "properties" {
		return "", false
	}
	return se.Sel.Name, true
}

func styleIsCSSName(s string) bool {
	if s == "" {
		return false
	}
	for i := 0; i < len(s); i++ {
		c := s[i]
		if !(c >= 'a' && c <= 'z' || c == '-') {
			return false
		}
	}
	return s[0] != '-'
}

type styleField struct {
	index int
	css   string
	kind  int // 0 url list, 1 font list, 2 enum, 3 regular
}

// the only accepted bodies of the two list loops (white space normalised)
const styleURLLoopBody = `{ if i > 0 { buf.WriteString(", ") } fmt.Fprintf(&buf, "url(\"%s\")", cssEscapeString(URLSanitized(url).String())) }`
const styleFontLoopBody = "{ if i > 0 { buf.WriteString(\", \") } if identifierPattern.MatchString(name) { buf.WriteString(name) continue } unescaped := name if len(name) >= 3 && strings.HasPrefix(name, `\"`) && strings.HasSuffix(name, `\"`) { unescaped = name[1 : len(name)-1] } fmt.Fprintf(&buf, `\"%s\"`, cssEscapeString(unescaped)) }"

// parseListField recognises
//
//	if len(properties.F) > 0 { buf.WriteString("name:"); for i, v := range properties.F { BODY }; buf.WriteString(";") }
func styleParseListField(fset *token.FileSet, st *ast.IfStmt) (field, css string, kind int, msg string) {
	cond := styleSrc(fset, st.Cond)
	if !strings.HasPrefix(cond, "len(properties.") || !strings.HasSuffix(cond, ") > 0") {
		return "", "", 0, "condition " + cond
	}
	field = strings.TrimSuffix(strings.TrimPrefix(cond, "len(properties."), ") > 0")
	if st.Else != nil || st.Init != nil || len(st.Body.List) != 3 {
		return "", "", 0, "list block of " + field + " does not have three statements"
	}
	head := styleSrc(fset, st.Body.List[0])
	if !strings.HasPrefix(head, `buf.WriteString("`) || !strings.HasSuffix(head, `:")`) {
		return "", "", 0, "head " + head
	}
	css = strings.TrimSuffix(strings.TrimPrefix(head, `buf.WriteString("`), `:")`)
	if !styleIsCSSName(css) {
		return "", "", 0, "css name " + css
	}
	tail := styleSrc(fset, st.Body.List[2])
	if tail != `buf.WriteString(";")` && tail != `buf.WriteByte(';')` {
		return "", "", 0, "tail " + tail
	}
	rs, ok := st.Body.List[1].(*ast.RangeStmt)
	if !ok || rs.Tok != token.DEFINE || styleSrc(fset, rs.X) != "properties."+field || styleSrc(fset, rs.Key) != "i" {
		return "", "", 0, "loop of " + field
	}
	body := styleSrc(fset, rs.Body)
	val := styleSrc(fset, rs.Value)
	switch {
	case val == "url" && body == styleURLLoopBody:
		kind = 0
	case val == "name" && body == styleFontLoopBody:
		kind = 1
	default:
		return "", "", 0, "loop body of " + field + " is not one of the two known bodies"
	}
	return field, css, kind, ""
}

// parseScalarField recognises
//
//	if properties.X != "" { fmt.Fprintf(&buf, "name:%s;", filter(properties.X, PATTERN)) }
func styleParseScalarField(fset *token.FileSet, st *ast.IfStmt) (field, css string, kind int, msg string) {
	be, ok := st.Cond.(*ast.BinaryExpr)
	if !ok || be.Op != token.NEQ || st.Else != nil || st.Init != nil {
		return "", "", 0, "condition " + styleSrc(fset, st.Cond)
	}
	field, ok = stylePropSel(be.X)
	if e, ok2 := styleStringLit(be.Y); !ok || !ok2 || e != "" {
		return "", "", 0, "condition " + styleSrc(fset, st.Cond)
	}
	if len(st.Body.List) != 1 {
		return "", "", 0, "block of " + field + " does not have one statement"
	}
	es, ok := st.Body.List[0].(*ast.ExprStmt)
	if !ok {
		return "", "", 0, "block of " + field
	}
	call, ok := es.X.(*ast.CallExpr)
	if !ok || styleSrc(fset, call.Fun) != "fmt.Fprintf" || len(call.Args) != 3 || styleSrc(fset, call.Args[0]) != "&buf" {
		return "", "", 0, "statement of " + field + ": " + styleSrc(fset, es)
	}
	format, ok := styleStringLit(call.Args[1])
	if !ok || !strings.HasSuffix(format, ":%s;") {
		return "", "", 0, "format of " + field + ": " + styleSrc(fset, call.Args[1])
	}
	css = strings.TrimSuffix(format, ":%s;")
	if !styleIsCSSName(css) {
		return "", "", 0, "css name " + css
	}
	fc, ok := call.Args[2].(*ast.CallExpr)
	if !ok || styleSrc(fset, fc.Fun) != "filter" || len(fc.Args) != 2 {
		return "", "", 0, "value of " + field + ": " + styleSrc(fset, call.Args[2])
	}
	if f2, ok := stylePropSel(fc.Args[0]); !ok || f2 != field {
		return "", "", 0, "filter argument of " + field + ": " + styleSrc(fset, fc.Args[0])
	}
	switch styleSrc(fset, fc.Args[1]) {
	case "safeEnumPropertyValuePattern":
		kind = 2
	case "safeRegularPropertyValuePattern":
		kind = 3
	default:
		return "", "", 0, "pattern of " + field + ": " + styleSrc(fset, fc.Args[1])
	}
	return field, css, kind, ""
}

func genStyle() {
	var b bytes.Buffer
	b.WriteString(genHeader)
	fset := token.NewFileSet()
	var notes []string
	note := func(format string, a ...interface{}) { notes = append(notes, fmt.Sprintf(format, a...)) }

	// ---------------------------------------------------------------- style.go
	structOK, fieldsOK := true, true
	var structFields []string
	var fields []styleField
	innocuous, innocuousOK := "", false

	f, err := parser.ParseFile(fset, filepath.Join(styleRepoDir(), "style.go"), nil, 0)
	if err != nil {
		structOK, fieldsOK = false, false
		note("style.go does not parse: %v", err)
	} else {
		// type StyleProperties struct { A []string; B []string; C string; ... }
		found := false
		ast.Inspect(f, func(n ast.Node) bool {
			ts, ok := n.(*ast.TypeSpec)
			if !ok || ts.Name.Name != "StyleProperties" {
				return true
			}
			stt, ok := ts.Type.(*ast.StructType)
			if !ok {
				return false
			}
			found = true
			for _, fl := range stt.Fields.List {
				if len(fl.Names) == 0 {
					structOK = false
					note("StyleProperties has an embedded field")
				}
				for _, nm := range fl.Names {
					structFields = append(structFields, nm.Name+"\x00"+styleSrc(fset, fl.Type))
				}
			}
			return false
		})
		if !found {
			structOK = false
			note("type StyleProperties struct not found")
		}
		// const InnocuousPropertyValue = "..."
		for _, d := range f.Decls {
			gd, ok := d.(*ast.GenDecl)
			if !ok || gd.Tok != token.CONST {
				continue
			}
			for _, sp := range gd.Specs {
				vs := sp.(*ast.ValueSpec)
				for i, nm := range vs.Names {
					if nm.Name == "InnocuousPropertyValue" && i < len(vs.Values) {
						innocuous, innocuousOK = styleStringLit(vs.Values[i])
					}
				}
			}
		}
		if !innocuousOK {
			note("const InnocuousPropertyValue not found as a string literal")
		}
		// filter must be: if !pattern.MatchString(value) { return InnocuousPropertyValue }; return value
		if fd := styleFuncDecl(f, "filter"); fd == nil ||
			styleSrc(fset, fd.Body) != "{ if !pattern.MatchString(value) { return InnocuousPropertyValue } return value }" ||
			styleSrc(fset, fd.Type) != "func(value string, pattern *regexp.Regexp) string" {
			fieldsOK = false
			note("func filter does not have the expected body")
		}

		index := map[string]int{}
		types := map[string]string{}
		for i, s := range structFields {
			p := strings.SplitN(s, "\x00", 2)
			index[p[0]] = i
			types[p[0]] = p[1]
			structFields[i] = p[0]
		}
		fd := styleFuncDecl(f, "StyleFromProperties")
		if fd == nil || fd.Body == nil || len(fd.Body.List) < 2 {
			fieldsOK = false
			note("func StyleFromProperties not found")
		} else {
			body := fd.Body.List
			if styleSrc(fset, fd.Type) != "func(properties StyleProperties) Style" {
				fieldsOK = false
				note("signature of StyleFromProperties: %s", styleSrc(fset, fd.Type))
			}
			if styleSrc(fset, body[0]) != "var buf bytes.Buffer" {
				fieldsOK = false
				note("first statement of StyleFromProperties: %s", styleSrc(fset, body[0]))
			}
			if styleSrc(fset, body[len(body)-1]) != "return Style{buf.String()}" {
				fieldsOK = false
				note("last statement of StyleFromProperties: %s", styleSrc(fset, body[len(body)-1]))
			}
			for _, st := range body[1 : len(body)-1] {
				ifs, ok := st.(*ast.IfStmt)
				if !ok {
					fieldsOK = false
					note("%s: not an if statement", fset.Position(st.Pos()))
					break
				}
				var field, css, msg string
				var kind int
				if _, isBin := ifs.Cond.(*ast.BinaryExpr); isBin && strings.HasPrefix(styleSrc(fset, ifs.Cond), "len(") {
					field, css, kind, msg = styleParseListField(fset, ifs)
				} else {
					field, css, kind, msg = styleParseScalarField(fset, ifs)
				}
				if msg != "" {
					fieldsOK = false
					note("%s: unexpected shape: %s", fset.Position(st.Pos()), msg)
					break
				}
				ix, ok := index[field]
				wantType := "string"
				if kind <= 1 {
					wantType = "[]string"
				}
				if !ok || types[field] != wantType {
					fieldsOK = false
					note("%s: field %s is not a %s field of StyleProperties", fset.Position(st.Pos()), field, wantType)
					break
				}
				fields = append(fields, styleField{ix, css, kind})
			}
		}
	}

	for _, n := range notes {
		fmt.Fprintf(&b, "(* NOTE: %s *)\n", cmt(n))
	}
	b.WriteString("(* style.go: field names of StyleProperties in declaration order *)\n")
	b.WriteString("Definition style_struct_fields : list bytes :=\n  [")
	for i, s := range structFields {
		if i > 0 {
			b.WriteString("; ")
		}
		b.WriteString(coqBytes(s))
	}
	b.WriteString("].\n")
	fmt.Fprintf(&b, "Definition translated_style_struct : bool := %v.\n\n", structOK)
	b.WriteString("(* style.go StyleFromProperties: the emissions in statement order:\n")
	b.WriteString("   (index of the field in StyleProperties, CSS property name, kind)\n")
	b.WriteString("   kind 0 = list of url(\"...\") values, 1 = font-family list, 2 = filter with the enum pattern,\n")
	b.WriteString("   3 = filter with the regular pattern *)\n")
	b.WriteString("Definition style_fields : list (N * bytes * N) :=\n  [")
	if fieldsOK {
		for i, fl := range fields {
			if i > 0 {
				b.WriteString(";\n   ")
			}
			fmt.Fprintf(&b, "(%d, %s, %d)", fl.index, coqBytes(fl.css), fl.kind)
		}
	}
	b.WriteString("].\n")
	fmt.Fprintf(&b, "Definition translated_style_fields : bool := %v.\n\n", fieldsOK && structOK)
	b.WriteString("(* style.go InnocuousPropertyValue *)\n")
	if !innocuousOK {
		innocuous = ""
	}
	fmt.Fprintf(&b, "Definition innocuous_property_value : bytes := %s.\n", coqBytes(innocuous))
	fmt.Fprintf(&b, "Definition translated_innocuous_property_value : bool := %v.\n\n", innocuousOK)

	// ---------------------------------------------------------------- stylesheet.go
	pre, mid, post, layoutOK := "", "", "", false
	f2, err := parser.ParseFile(fset, filepath.Join(styleRepoDir(), "stylesheet.go"), nil, 0)
	if err != nil {
		fmt.Fprintf(&b, "(* NOTE: stylesheet.go does not parse: %s *)\n", cmt(err.Error()))
	} else if fd := styleFuncDecl(f2, "CSSRule"); fd == nil || fd.Body == nil || len(fd.Body.List) == 0 {
		b.WriteString("(* NOTE: func CSSRule not found *)\n")
	} else {
		msg := ""
		if styleSrc(fset, fd.Type) != "func(selector string, style Style) (StyleSheet, error)" {
			msg = "signature " + styleSrc(fset, fd.Type)
		}
		// every return statement other than the last must return the zero StyleSheet and an error
		last := fd.Body.List[len(fd.Body.List)-1]
		ast.Inspect(fd.Body, func(n ast.Node) bool {
			rs, ok := n.(*ast.ReturnStmt)
			if !ok || n == last {
				return true
			}
			if len(rs.Results) != 2 || styleSrc(fset, rs.Results[0]) != "StyleSheet{}" || !strings.HasPrefix(styleSrc(fset, rs.Results[1]), "fmt.Errorf(") {
				msg = "early return " + styleSrc(fset, rs)
			}
			return true
		})
		rs, ok := last.(*ast.ReturnStmt)
		if !ok || len(rs.Results) != 2 || styleSrc(fset, rs.Results[1]) != "nil" {
			msg = "last statement " + styleSrc(fset, last)
		} else if cl, ok := rs.Results[0].(*ast.CompositeLit); !ok || styleSrc(fset, cl.Type) != "StyleSheet" || len(cl.Elts) != 1 {
			msg = "result " + styleSrc(fset, rs.Results[0])
		} else if call, ok := cl.Elts[0].(*ast.CallExpr); !ok || styleSrc(fset, call.Fun) != "fmt.Sprintf" || len(call.Args) != 3 ||
			styleSrc(fset, call.Args[1]) != "selector" || styleSrc(fset, call.Args[2]) != "style.String()" {
			msg = "result " + styleSrc(fset, rs.Results[0])
		} else if format, ok := styleStringLit(call.Args[0]); !ok {
			msg = "format is not a string literal"
		} else {
			parts := strings.Split(format, "%s")
			if len(parts) != 3 || strings.Contains(strings.Join(parts, ""), "%") {
				msg = "format " + strconv.Quote(format) + " is not of the form A%sB%sC without other verbs"
			} else {
				pre, mid, post = parts[0], parts[1], parts[2]
			}
		}
		// Style.String must return the wrapped string
		if f != nil {
			okString := false
			for _, d := range f.Decls {
				if md, ok := d.(*ast.FuncDecl); ok && md.Recv != nil && md.Name.Name == "String" && len(md.Recv.List) == 1 &&
					styleSrc(fset, md.Recv.List[0].Type) == "Style" && styleSrc(fset, md.Body) == "{ return s.str }" {
					okString = true
				}
			}
			if !okString && msg == "" {
				msg = "method Style.String does not have the body { return s.str }"
			}
		}
		if msg != "" {
			fmt.Fprintf(&b, "(* NOTE: CSSRule: %s *)\n", cmt(msg))
			pre, mid, post = "", "", ""
		} else {
			layoutOK = true
		}
	}
	b.WriteString("(* stylesheet.go CSSRule: fmt.Sprintf(PRE %s MID %s POST, selector, style.String()) *)\n")
	fmt.Fprintf(&b, "Definition cssrule_pre : bytes := %s.\n", coqBytes(pre))
	fmt.Fprintf(&b, "Definition cssrule_mid : bytes := %s.\n", coqBytes(mid))
	fmt.Fprintf(&b, "Definition cssrule_post : bytes := %s.\n", coqBytes(post))
	fmt.Fprintf(&b, "Definition translated_cssrule_layout : bool := %v.\n", layoutOK)
	writeIfChanged("GenStyle.v", b.Bytes())
}
