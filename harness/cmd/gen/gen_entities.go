package main

import (
	"bytes"
	"fmt"
	"go/ast"
	"go/parser"
	"go/token"
	"os/exec"
	"path/filepath"
	"sort"
	"strconv"
	"strings"
)

func init() { generators = append(generators, genEntities) }

func goroot() string {
	out, err := exec.Command("go", "env", "GOROOT").Output()
	if err != nil {
		panic(err)
	}
	return strings.TrimSpace(string(out))
}

func runeLit(e ast.Expr) rune {
	bl, ok := e.(*ast.BasicLit)
	if !ok || bl.Kind != token.CHAR {
		panic("entity.go: expected a rune literal")
	}
	s := bl.Value
	r, _, _, err := strconv.UnquoteChar(s[1:len(s)-1], '\'')
	if err != nil {
		panic(err)
	}
	return r
}

// genEntities parses the installed Go's html/entity.go (stdlib: modelled, not verified) into
// association lists, plus the numeric-reference replacement table of html/escape.go.
func genEntities() {
	fset := token.NewFileSet()
	root := goroot()
	f, err := parser.ParseFile(fset, filepath.Join(root, "src/html/entity.go"), nil, 0)
	if err != nil {
		panic(err)
	}
	type e1 struct {
		name string
		r    rune
	}
	type e2 struct {
		name string
		r    [2]rune
	}
	var ents []e1
	var ents2 []e2
	longest := -1
	ast.Inspect(f, func(n ast.Node) bool {
		switch x := n.(type) {
		case *ast.ValueSpec:
			if len(x.Names) == 1 && x.Names[0].Name == "longestEntityWithoutSemicolon" && len(x.Values) == 1 {
				if bl, ok := x.Values[0].(*ast.BasicLit); ok {
					longest, _ = strconv.Atoi(bl.Value)
				}
			}
		case *ast.AssignStmt:
			if len(x.Lhs) != 1 || len(x.Rhs) != 1 {
				return true
			}
			id, ok := x.Lhs[0].(*ast.Ident)
			cl, ok2 := x.Rhs[0].(*ast.CompositeLit)
			if !ok || !ok2 {
				return true
			}
			for _, el := range cl.Elts {
				kv := el.(*ast.KeyValueExpr)
				name, _ := strconv.Unquote(kv.Key.(*ast.BasicLit).Value)
				switch id.Name {
				case "entity":
					ents = append(ents, e1{name, runeLit(kv.Value)})
				case "entity2":
					v := kv.Value.(*ast.CompositeLit)
					ents2 = append(ents2, e2{name, [2]rune{runeLit(v.Elts[0]), runeLit(v.Elts[1])}})
				}
			}
		}
		return true
	})
	sort.Slice(ents, func(i, j int) bool { return ents[i].name < ents[j].name })
	sort.Slice(ents2, func(i, j int) bool { return ents2[i].name < ents2[j].name })

	f2, err := parser.ParseFile(fset, filepath.Join(root, "src/html/escape.go"), nil, 0)
	if err != nil {
		panic(err)
	}
	var repl []rune
	ast.Inspect(f2, func(n ast.Node) bool {
		vs, ok := n.(*ast.ValueSpec)
		if ok && len(vs.Names) == 1 && vs.Names[0].Name == "replacementTable" {
			for _, el := range vs.Values[0].(*ast.CompositeLit).Elts {
				repl = append(repl, runeLit(el))
			}
		}
		return true
	})

	var b bytes.Buffer
	b.WriteString(genHeader)
	fmt.Fprintf(&b, "(* from %s/src/html/entity.go and escape.go *)\n", root)
	fmt.Fprintf(&b, "Definition longest_entity_without_semicolon : nat := %d.\n", longest)
	fmt.Fprintf(&b, "Definition translated_entities : bool := %v.\n\n", longest > 0 && len(ents) > 2000 && len(ents2) > 50 && len(repl) == 32)
	b.WriteString("Definition entity_table : list (bytes * N) :=\n  [ ")
	for i, e := range ents {
		if i > 0 {
			b.WriteString(";\n    ")
		}
		fmt.Fprintf(&b, "(%s, %d)", coqBytes(e.name), e.r)
	}
	b.WriteString(" ].\n\nDefinition entity2_table : list (bytes * (N * N)) :=\n  [ ")
	for i, e := range ents2 {
		if i > 0 {
			b.WriteString(";\n    ")
		}
		fmt.Fprintf(&b, "(%s, (%d, %d))", coqBytes(e.name), e.r[0], e.r[1])
	}
	b.WriteString(" ].\n\n(* replacementTable: what numeric references 0x80..0x9F decode to *)\nDefinition charref_replacement_table : list N :=\n  [ ")
	for i, r := range repl {
		if i > 0 {
			b.WriteString("; ")
		}
		fmt.Fprintf(&b, "%d", r)
	}
	b.WriteString(" ].\n")
	writeIfChanged("GenEntities.v", b.Bytes())
}
