package main

// Re-execution check for the streams of pure functions (package-level functions of safehtml whose
// result must be a function of their arguments alone).  Every case of such a stream that the
// generator emitted is executed again: once more in the same order, once in reverse order, and
// once from 32 goroutines at the same time in a shuffled order.  The lines a case writes must be
// the same every time; a difference means the result depends on which calls were made before
// (a cache keyed on too little, a shared buffer) or on calls made concurrently (a pooled buffer
// released too early, unsynchronised shared state).  Differences are written as cases of the
// stream "replaycheck", which the driver reports as specification failures.

import (
	"bufio"
	"fmt"
	"io/ioutil"
	"math/rand"
	"strings"
	"sync"
)

var pureStreams = map[string]bool{
	"html_escaped": true, "html_concat": true, "url_sanitized": true, "urlset": true, "srcmeta": true,
	"tru_format": true, "tru_append": true, "tru_params": true, "url_proc": true,
	"style_props": true, "css_escape": true, "css_rule": true, "strip_strings": true, "balanced": true,
	"script_data": true, "json_string": true, "ident_const": true, "ident_prefix": true,
	"tsrc_dir":      true,
	"m_is_safe_url": true, "m_query_escape": true, "m_normalize": true, "m_tru_prefix": true, "m_dotdot": true,
	"m_html_escaped": true, "m_coerce": true,
}

type emitRec struct {
	name string
	in   []string
	keys string
}

var (
	emitLog    []emitRec
	emitLogCap = 250000
	inReplay   bool
)

// captureExec runs one stream on one input with a private writer and returns the lines it wrote.
func captureExec(name string, in []string) string {
	tc := &caseWriter{w: bufio.NewWriter(ioutil.Discard), streams: map[string]int{}, seen: map[string]bool{}}
	var keys []string
	tc.capture = &keys
	func() {
		defer func() {
			if r := recover(); r != nil {
				// the same pseudo case that emit writes for an escaped panic
				enc := []string{name}
				for _, x := range in {
					enc = append(enc, hx(x))
				}
				msg := fmt.Sprint(r)
				if len(msg) > 160 {
					msg = msg[:160]
				}
				keys = append(keys, "implpanic\t"+hx(strings.Join(enc, ","))+"\t"+hx(msg))
			}
		}()
		streams[name].exec(tc, in)
	}()
	return strings.Join(keys, "\n")
}

func replayDiff(c *caseWriter, kind string, r emitRec, got string) {
	var ins []string
	for _, x := range r.in {
		ins = append(ins, hx(x))
	}
	c.Case("replaycheck", kind, r.name, strings.Join(ins, ","), hx(r.keys), hx(got))
}

// replayCheck re-executes the logged cases; returns the number of differences reported.
func replayCheck(c *caseWriter) int {
	n := len(emitLog)
	if n == 0 {
		return 0
	}
	inReplay = true
	defer func() { inReplay = false }()
	fwd := make([]string, n)
	for i, r := range emitLog {
		fwd[i] = captureExec(r.name, r.in)
	}
	rev := make([]string, n)
	for i := n - 1; i >= 0; i-- {
		rev[i] = captureExec(emitLog[i].name, emitLog[i].in)
	}
	par := make([]string, n)
	order := rand.New(rand.NewSource(int64(n))).Perm(n)
	const workers = 32 // more runnable goroutines than processors: pre-emption inside a call becomes likely
	var wg sync.WaitGroup
	for w := 0; w < workers; w++ {
		wg.Add(1)
		go func(w int) {
			defer wg.Done()
			for k := w; k < n; k += workers {
				i := order[k]
				par[i] = captureExec(emitLog[i].name, emitLog[i].in)
			}
		}(w)
	}
	wg.Wait()
	diffs, hist, conc := 0, 0, 0
	for i, r := range emitLog {
		switch {
		case fwd[i] != r.keys:
			hist++
			if hist <= 3 {
				replayDiff(c, "earlier_calls", r, fwd[i])
			}
		case rev[i] != r.keys:
			hist++
			if hist <= 3 {
				replayDiff(c, "earlier_calls", r, rev[i])
			}
		case par[i] != r.keys:
			conc++
			if conc <= 3 {
				replayDiff(c, "concurrent_calls", r, par[i])
			}
		default:
			continue
		}
		diffs++
	}
	c.Case("replaycheck", "summary", fmt.Sprint(n), fmt.Sprint(hist), fmt.Sprint(conc), "-", "-")
	return diffs
}

func init() {
	// replay of one reported difference: the case alone (reference), then the same case from eight
	// goroutines, 400 times each, interleaved with a perturbed input
	reg("replaycheck", 3, func(c *caseWriter, in []string) {
		kind, name := in[0], in[1]
		d, ok := streams[name]
		if !ok || kind == "summary" {
			c.Case("replaycheck", "summary", "0", "0", "0", "-", "-")
			return
		}
		var args []string
		for _, x := range strings.Split(in[2], ",") {
			args = append(args, unhx(x))
		}
		if len(args) != d.nin {
			c.Case("replaycheck", "summary", "0", "0", "0", "-", "-")
			return
		}
		r := emitRec{name, args, captureExec(name, args)}
		other := make([]string, len(args))
		for i, a := range args {
			other[i] = a + "x"
		}
		var mu sync.Mutex
		bad := ""
		var wg sync.WaitGroup
		for w := 0; w < 8; w++ {
			wg.Add(1)
			go func(w int) {
				defer wg.Done()
				for k := 0; k < 400; k++ {
					if (k+w)%2 == 0 {
						captureExec(name, other)
					}
					if got := captureExec(name, args); got != r.keys {
						mu.Lock()
						bad = got
						mu.Unlock()
					}
				}
			}(w)
		}
		wg.Wait()
		if bad != "" {
			replayDiff(c, kind, r, bad)
		} else {
			c.Case("replaycheck", "summary", "1", "0", "0", "-", "-")
		}
	})
}
