//go:build c13 || allprops

package main

// C13 streams.
//
// Wire format of an argument / parameter map: ONE field. The map is written as the ASCII text
//
//	hex(k1):hex(v1),hex(k2):hex(v2),...      ("-" for an empty key or value, "" for no pairs)
//
// in insertion order, and that text is hex-encoded again like every other field (an empty map is
// the field "-"). Keys are unique.
//
//	tru_format  format args  -> outcome (ok | prefix | missing:<hex label> | dotdot:<hex label>), out
//	tru_append  base s       -> outcome (ok | err), out
//	tru_params  base params  -> out, number of distinct results over repeated calls / insertion orders

import (
	"fmt"
	"strings"

	"github.com/google/safehtml"
)

func init() { props["C13"] = runC13 }

type kv struct{ k, v string }

func encPairs(ps []kv) string {
	var parts []string
	for _, p := range ps {
		parts = append(parts, hx(p.k)+":"+hx(p.v))
	}
	return strings.Join(parts, ",")
}

func decPairs(s string) []kv {
	if s == "" {
		return nil
	}
	var out []kv
	for _, p := range strings.Split(s, ",") {
		f := strings.Split(p, ":")
		out = append(out, kv{unhx(f[0]), unhx(f[1])})
	}
	return out
}

func mapOf(ps []kv) map[string]string {
	m := map[string]string{}
	for _, p := range ps {
		m[p.k] = p.v
	}
	return m
}

// label between the first pair of double quotes of an error text (labels are [0-9A-Za-z_]+)
func quotedLabel(msg string) string {
	i := strings.IndexByte(msg, '"')
	if i < 0 {
		return ""
	}
	j := strings.IndexByte(msg[i+1:], '"')
	if j < 0 {
		return ""
	}
	return msg[i+1 : i+1+j]
}

func init() {
	reg("tru_format", 2, func(c *caseWriter, in []string) {
		t, err := safehtml.VerifTrustedResourceURLFormat(in[0], mapOf(decPairs(in[1])))
		outcome := "ok"
		if err != nil {
			msg := err.Error()
			switch {
			case strings.HasPrefix(msg, "expected argument named "):
				outcome = "missing:" + hx(quotedLabel(msg))
			case strings.HasPrefix(msg, "argument "):
				outcome = "dotdot:" + hx(quotedLabel(msg))
			case strings.HasSuffix(msg, "is a disallowed TrustedResourceURL format string"):
				outcome = "prefix"
			default:
				outcome = "othererror"
			}
		}
		c.Case("tru_format", hx(in[0]), hx(in[1]), outcome, hx(t.String()))
	})
	reg("tru_append", 2, func(c *caseWriter, in []string) {
		t, err := safehtml.TrustedResourceURLAppend(safehtml.VerifRawTrustedResourceURL(in[0]), in[1])
		outcome := "ok"
		if err != nil {
			outcome = "err"
		}
		c.Case("tru_append", hx(in[0]), hx(in[1]), outcome, hx(t.String()))
	})
	reg("tru_params", 2, func(c *caseWriter, in []string) {
		ps := decPairs(in[1])
		base := safehtml.VerifRawTrustedResourceURL(in[0])
		results := map[string]bool{}
		first := ""
		// Go randomises map iteration per range statement: repeat the call, and build the map
		// in several insertion orders
		orders := [][]kv{ps}
		if len(ps) > 1 {
			rev := make([]kv, len(ps))
			for i, p := range ps {
				rev[len(ps)-1-i] = p
			}
			orders = append(orders, rev, append(append([]kv{}, ps[1:]...), ps[0]))
		}
		for oi, o := range orders {
			for rep := 0; rep < 6; rep++ {
				r := safehtml.TrustedResourceURLWithParams(base, mapOf(o)).String()
				if oi == 0 && rep == 0 {
					first = r
				}
				results[r] = true
			}
		}
		c.Case("tru_params", hx(in[0]), hx(in[1]), hx(first), fmt.Sprint(len(results)))
	})
}

func truFormat(c *caseWriter, format string, args []kv) {
	emit(c, "tru_format", format, encPairs(args))
}
func truAppend(c *caseWriter, base, s string)       { emit(c, "tru_append", base, s) }
func truParams(c *caseWriter, base string, ps []kv) { emit(c, "tru_params", base, encPairs(ps)) }

var c13Labels = []string{"a", "b", "c", "d"}

// template tokens: "M" stands for the next marker
func c13Template(tokens []string) (string, int) {
	var b strings.Builder
	n := 0
	for _, t := range tokens {
		if t == "M" {
			b.WriteString("%{" + c13Labels[n%len(c13Labels)] + "}")
			n++
		} else {
			b.WriteString(t)
		}
	}
	return b.String(), n
}

func c13Tuples(alphabet []string, n int, f func([]string)) {
	cur := make([]string, n)
	var rec func(i int)
	rec = func(i int) {
		if i == n {
			f(append([]string{}, cur...))
			return
		}
		for _, a := range alphabet {
			cur[i] = a
			rec(i + 1)
		}
	}
	rec(0)
}

func c13Args(vals []string) []kv {
	var out []kv
	for i, v := range vals {
		out = append(out, kv{c13Labels[i], v})
	}
	return out
}

func permutations(ps []kv, f func([]kv)) {
	var rec func(k int)
	a := append([]kv{}, ps...)
	rec = func(k int) {
		if k == len(a) {
			f(append([]kv{}, a...))
			return
		}
		for i := k; i < len(a); i++ {
			a[k], a[i] = a[i], a[k]
			rec(k + 1)
			a[k], a[i] = a[i], a[k]
		}
	}
	rec(0)
}

func uniqueKeys(ps []kv) []kv {
	seen := map[string]bool{}
	var out []kv
	for _, p := range ps {
		if !seen[p.k] {
			seen[p.k] = true
			out = append(out, p)
		}
	}
	return out
}

func runC13(c *caseWriter) (string, bool, map[string]int) {
	thorough := tier == "thorough"
	safePrefixes := []string{"https://h.example/d/", "/d/", "//h.example/", "/", "about:blank#", "HTTPS://H-1.x:80/", "https://[::1]/", "/d", "/?", "/#", "/é", "/\xff", "AbOuT:BlAnK#"}
	unsafePrefixes := []string{"", "http://h/", "javascript:", "//", "///x", "/\\h/", "https:/h/", "https://h", "https://h?/", "data:,", "x/", "\\/h/", " /a",
		"abc", "about:blank", "about:blank?", "ftp://h/", "https://a_b/", "https://h@e/", "https:///", "//?/", "\n/a", "https://h\n/", "xhttps://h/", "about:blan", "\xff/"}
	// accepted only through the Unicode case folding of (?i) (finding D22)
	foldPrefixes := []string{"http\u017f://h.example/", "https://evi\u017f.example/", "about:blan\u212a#", "//\u212a/", "HTTP\u017f://h/"}
	argVals := []string{".", "..", "%2e", "%2E.", "/", "\\", "?", "#", "%", "", "a", "x.y", "é", "\xff", "\x00", " ", "a/../b", "%2e%2e", ".%2E", "~_-", ":", "@", "[", "//", "&=+"}
	coreVals := []string{".", "", "a", "..", "%2e"}
	randBytes := func() string {
		n := rng.Intn(6)
		b := make([]byte, n)
		for i := range b {
			b[i] = byte(rng.Intn(256))
		}
		return string(b)
	}
	randVal := func() string {
		if rng.Intn(5) == 0 {
			return randBytes()
		}
		return pick(argVals)
	}

	// (0) canonical witnesses of the recorded findings, and the documentation's examples
	truFormat(c, "/%{a}/evil.com/x.js", []kv{{"a", ""}})                 // D14
	truFormat(c, "https://h/a/%{a}%{b}/c", []kv{{"a", "."}, {"b", "."}}) // D10
	truFormat(c, "/a/.%{a}/x.js", []kv{{"a", "."}})                      // D10
	truFormat(c, "/a/%2e%{a}/x.js", []kv{{"a", "."}})                    // D10
	truFormat(c, "/a/b/%{a}/../c", []kv{{"a", "."}})                     // D23
	truFormat(c, "http\u017f://evil.example/%{a}", []kv{{"a", "x"}})     // D22
	truAppend(c, "/a/b/", "..")                                          // D24
	truAppend(c, "/a/.", ".")                                            // D24
	truFormat(c, "//www.youtube.com/v/%{id}?hl=%{lang}", []kv{{"id", "abc0def1"}, {"lang", "en"}})
	truFormat(c, "/path/%{a}/%{b}", []kv{{"a", "x/y"}, {"b", "?q#f"}})
	truFormat(c, "/a/%{a}/%{b}/%{c}", []kv{{"a", ".."}, {"c", "x"}}) // first missing kept unless a later ".." overwrites
	truFormat(c, "/a/%{b}/%{a}/%{c}", []kv{{"a", ".."}, {"c", "x"}})
	truFormat(c, "/a/%{b}/%{c}", []kv{{"a", "1"}})

	// (1) directed-search seeds: as format, as argument, as appended string, as base, as parameter
	for _, s := range extraSeeds {
		for _, v := range seedVariants(s) {
			truFormat(c, v, []kv{{"a", "x"}})
			truFormat(c, v+"%{a}", []kv{{"a", "."}})
			truFormat(c, "/d/%{a}", []kv{{"a", v}})
			truFormat(c, "/d/"+v, []kv{{"a", "x"}, {"b", "."}})
			truAppend(c, v, "x")
			truAppend(c, "/d/", v)
			truParams(c, v, []kv{{"k", "v"}})
			truParams(c, "/d", []kv{{v, v}})
			rxCase(c, "safeTrustedResourceURLPrefixPattern", v)
			rxCase(c, "urlDoubleDotSegmentPattern", v)
			rxCase(c, "trustedResourceURLFormatMarkerPattern", v)
		}
	}

	// (2a) exhaustive small scope: every template of <= depth tokens over {marker . / %2e}
	depth := 4
	if thorough {
		depth = 5
	}
	tokens := []string{"M", ".", "/", "%2e"}
	type tplT struct {
		s     string
		ntok  int
		nmark int
	}
	var templates []tplT
	for n := 0; n <= depth; n++ {
		c13Tuples(tokens, n, func(t []string) {
			s, m := c13Template(t)
			if m <= 4 {
				templates = append(templates, tplT{s, n, m})
			}
		})
	}
	for _, tp := range templates {
		tpl, m := tp.s, tp.nmark
		for _, pre := range []string{"https://h.example/d/", "/d/", "/"} {
			for _, suf := range []string{"", "/f.js"} {
				if pre == "/" && (suf != "" || tp.ntok > 3) {
					continue // the marker-right-after-the-slash corner (D14): short templates suffice
				}
				format := pre + tpl + suf
				if m <= 2 || thorough && m <= 3 {
					c13Tuples(coreVals, m, func(v []string) { truFormat(c, format, c13Args(v)) })
				} else {
					for i := 0; i < 10; i++ {
						v := make([]string, m)
						for j := range v {
							v[j] = pick(coreVals)
						}
						truFormat(c, format, c13Args(v))
					}
				}
				if m > 0 {
					for i := 0; i < 3; i++ {
						v := make([]string, m)
						for j := range v {
							v[j] = randVal()
						}
						truFormat(c, format, c13Args(v))
					}
				}
			}
		}
	}
	// (2b) every prefix (safe, unsafe, folded) x a few templates x a few argument lists
	allPrefixes := append(append(append([]string{}, safePrefixes...), unsafePrefixes...), foldPrefixes...)
	fewTemplates := []string{"", "%{a}", "%{a}/%{b}", "x/%{a}.js", "%{a}%{b}", ".%{a}/", "%{a}/../x", "x?q=%{a}#%{b}", "%{a}:%{b}@x/"}
	for _, pre := range allPrefixes {
		for _, tpl := range fewTemplates {
			for _, v := range [][]string{{"x", "y"}, {".", "."}, {"", ""}, {"/", "\\"}, {"?", "#"}, {":", "@"}} {
				truFormat(c, pre+tpl, c13Args(v))
			}
		}
		for _, s := range []string{"", "x", ".", "..", "/", "?", "#", "%2e", "é"} {
			truAppend(c, pre, s)
			truAppend(c, pre+"a/b", s)
			truAppend(c, pre+"a/.", s)
		}
		rxCase(c, "safeTrustedResourceURLPrefixPattern", pre)
		emit(c, "m_tru_prefix", pre)
	}
	// (2c) the marker scanner: every string of <= sdepth symbols over { % { } a _ SP } as a path template
	sdepth := 5
	if thorough {
		sdepth = 6
	}
	var scanArgs []kv
	for n := 1; n <= 3; n++ {
		c13Tuples([]string{"a", "_"}, n, func(t []string) { scanArgs = append(scanArgs, kv{strings.Join(t, ""), fmt.Sprint(len(scanArgs))}) })
	}
	product([]string{"%", "{", "}", "a", "_", " "}, sdepth, func(v string) {
		truFormat(c, "/d/"+v, scanArgs)
		rxCase(c, "trustedResourceURLFormatMarkerPattern", v)
	})
	for _, tpl := range []string{"%{a%{b}", "%{}", "%{a b}", "%%{a}", "%{a}}", "%{{a}", "%{é}", "%{a_1}", "%{A}", "%{0}", "%{a}%{a}", "%{a", "%{", "%", "%{a-b}", "%{a.b}", "%{а}" /* Cyrillic */, "%{a\x00}", "%{\xff}", "%{aaaaaaaaaaaaaaaaaaaaaaaaaaaaaaaaaaaaaaaa}"} {
		truFormat(c, "/d/"+tpl, []kv{{"a", "1"}, {"b", "2"}, {"A", "3"}, {"0", "4"}, {"a_1", "5"}, {"aaaaaaaaaaaaaaaaaaaaaaaaaaaaaaaaaaaaaaaa", "6"}})
	}
	// (2d) every single byte as argument, appended string, parameter key and value, and inside the format
	for b := 0; b < 256; b++ {
		s := string([]byte{byte(b)})
		truFormat(c, "/d/%{a}/f", []kv{{"a", s}})
		truFormat(c, "/d/.%{a}/f", []kv{{"a", s}})
		truFormat(c, "https://h/"+s+"%{a}", []kv{{"a", "v"}})
		truFormat(c, "/"+s+"/%{a}", []kv{{"a", "v"}})
		truAppend(c, "/d/", s)
		truAppend(c, "/d/a"+s, "x")
		truParams(c, "/d", []kv{{"k" + s, "v" + s}})
		truParams(c, "/d"+s, []kv{{"k", "v"}})
		emit(c, "m_query_escape", s+"a"+s)
		emit(c, "m_dotdot", "."+s)
		emit(c, "m_dotdot", "%2"+s)
	}
	// (2e) argument values against the ".." check
	product([]string{".", "%2e", "%2E", "%", "2", "e", "a"}, 4, func(v string) {
		truFormat(c, "/d/%{a}/f", []kv{{"a", v}})
		rxCase(c, "urlDoubleDotSegmentPattern", v)
	})
	// missing, unused and partially missing arguments
	for _, tpl := range []string{"%{a}", "%{a}/%{b}", "%{b}/%{a}", "%{a}/%{b}/%{c}", "%{c}%{b}%{a}"} {
		for _, args := range [][]kv{nil, {{"a", "1"}}, {{"b", "2"}}, {{"a", ".."}}, {{"b", ".."}}, {{"a", "1"}, {"b", ".."}}, {{"a", ".."}, {"c", "%2e%2E"}}, {{"z", "9"}}, {{"a", "1"}, {"b", "2"}, {"c", "3"}, {"z", "9"}}} {
			truFormat(c, "/d/"+tpl, args)
			truFormat(c, "javascript:"+tpl, args)
		}
	}

	// (2f) WithParams: bases with / without query and fragment x parameter maps of <= 4 pairs in all insertion orders
	bases := []string{"/a", "/a?", "/a?x=1", "/a?x=1&", "/a#f", "/a?#f", "/a?x#f?g", "/a#f?g", "https://h.example/p?a=b#c", "", "#", "?", "??", "about:blank#x",
		"/a?x?", "a:b", "//h", "//h?", "/a#", "/a?&", "/a/b/../c?x=%2e", "/é?é#é", "\xff?\xff"}
	keys := []string{"k", "a", "b", "", "k&", "é", "=", "a b", "%", "#", "K", "aa", "a=", "\xff"}
	vals := []string{"v", "", "1&2", "=", "#", "?", "é", "\x00", "/", "%41", "+", " "}
	var maps [][]kv
	maps = append(maps, nil, []kv{{"k", "v"}}, []kv{{"", "v"}}, []kv{{"k", ""}}, []kv{{"", ""}},
		[]kv{{"b", "1"}, {"a", "2"}}, []kv{{"b", "1"}, {"a", "2"}, {"", "x"}, {"c", ""}},
		[]kv{{"a", "1"}, {"a=", "1"}, {"a&", "2"}, {"aa", "0"}}, []kv{{"a", "=1"}, {"a=", "1"}}, []kv{{"k", "v"}, {"K", "v"}, {"é", "é"}})
	nm := 40
	if thorough {
		nm = 400
	}
	for i := 0; i < nm; i++ {
		n := 1 + rng.Intn(4)
		var ps []kv
		for j := 0; j < n; j++ {
			ps = append(ps, kv{pick(keys), pick(vals)})
		}
		maps = append(maps, uniqueKeys(ps))
	}
	for _, ps := range maps {
		for bi, base := range bases {
			if len(ps) <= 3 || bi < 4 {
				permutations(ps, func(p []kv) { truParams(c, base, p) })
			} else {
				truParams(c, base, ps)
			}
		}
	}

	// (3) structured random: prefix + template over a wider token set, random arguments (some missing, some unused)
	wide := []string{"M", "M", "M", ".", "/", "%2e", "%2E", "x", "?", "#", "..", "%", "%{", "}", "%{}", "%{a b}", "é", "\\", ":", "@", "&", "=", ";", "//", "/./", "/../"}
	n := 6000
	if thorough {
		n = 150000
	}
	for i := 0; i < n; i++ {
		var pre string
		switch r := rng.Intn(10); {
		case r < 7:
			pre = pick(safePrefixes)
		case r < 9:
			pre = pick(unsafePrefixes)
		default:
			pre = pick(foldPrefixes)
		}
		k := rng.Intn(9)
		toks := make([]string, k)
		for j := range toks {
			toks[j] = pick(wide)
		}
		tpl, m := c13Template(toks)
		var args []kv
		for j := 0; j < m && j < len(c13Labels); j++ {
			if rng.Intn(12) != 0 {
				args = append(args, kv{c13Labels[j], randVal()})
			}
		}
		if rng.Intn(6) == 0 {
			args = append(args, kv{"zz", randVal()})
		}
		truFormat(c, pre+tpl, args)
		if i%3 == 0 {
			truAppend(c, pre+strings.ReplaceAll(tpl, "%{", "{"), randVal())
		}
		if i%5 == 0 {
			truParams(c, pre+strings.ReplaceAll(tpl, "%{", "{"), uniqueKeys([]kv{{pick(keys), randVal()}, {pick(keys), pick(vals)}, {randBytes(), randBytes()}}))
		}
	}

	// (4) malformed UTF-8 in every position
	for _, mf := range malformed {
		truFormat(c, "/d/"+mf+"%{a}"+mf, []kv{{"a", mf}})
		truFormat(c, mf+"/d/%{a}", []kv{{"a", "x"}})
		truFormat(c, "/"+mf, nil)
		truFormat(c, "https://h"+mf+"/%{a}", []kv{{"a", "x"}})
		truFormat(c, "/d/%{"+mf+"}", []kv{{mf, "x"}})
		truAppend(c, "/d/"+mf, mf)
		truAppend(c, mf, "x")
		truParams(c, "/d?"+mf+"#"+mf, []kv{{mf, mf}, {"k", mf}})
		rxCase(c, "safeTrustedResourceURLPrefixPattern", "/"+mf)
		rxCase(c, "safeTrustedResourceURLPrefixPattern", mf+"/")
	}
	return fmt.Sprintf("formats = {13 safe, 26 unsafe, 5 case-folded prefixes} x path templates: every sequence of <= %d tokens over {marker . / %%2e} (0-4 markers, every adjacency) with and without a file name, arguments exhaustively over {. '' a .. %%2e} for <= 2 markers plus random ones from {. .. %%2e %%2E. / \\ ? # %% '' random bytes ...}; the marker scanner on every string of <= %d symbols over {%% { } a _ SP}; every single byte as argument / appended string / parameter / format byte; the '..' check on all strings of <= 4 tokens over {. %%2e %%2E %% 2 e a}; missing / unused arguments; WithParams on 23 bases (with/without query/fragment) x parameter maps of <= 4 pairs in all insertion orders, each called repeatedly; structured random formats over a wider token set; malformed UTF-8. Non-trivial = a marker was substituted, a string appended, a parameter added", depth, sdepth), true, map[string]int{"template_depth": depth, "scanner_depth": sdepth, "templates": len(templates)}
}
