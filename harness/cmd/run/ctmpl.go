//go:build tmpl || allprops

package main

func init() { props["TMPL"] = runTmpl }

// runTmpl exercises only the text-level correspondence streams (development aid; the
// properties that build on the template machine call genTmplText themselves).
func runTmpl(c *caseWriter) (string, bool, map[string]int) {
	genTmplText(c, tier != "thorough")
	genSanitizerApply(c, tier != "thorough")
	genHistories(c, tier != "thorough")
	return "text-level template machine correspondence", false, nil
}
