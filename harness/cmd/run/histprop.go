//go:build tmpl || allprops

package main

import (
	"fmt"
	"sort"
	"strings"
	"text/template/parse"
)

// Property oracles over API histories (C05, C06, C07): implementation against implementation.
// Case line of streams hist05 / hist06 / hist07 (same fields, judged differently by the driver):
//   <hex ops> <nops> {<op wire> <result> <state>}*  <verdicts>
// where <verdicts> is one ';'-separated record per exec op:
//   k|<res>|<len(out)>|fresh:<res>:<same 0/1>|proj:<res>:<same 0/1 or ->|sticky:<0/1>|shared:<names,>|opening:<names,>
// and the non-exec clause results are appended as  P<k>:<ok/late-parse-accepted>  C<k>:<...>.

type opInfo struct {
	ns int // name space of the handle the op acts on (-1 unknown)
}

// call graph of a set of definitions: template name -> called names
func callees(text string, mainName string) map[string][]string {
	g := map[string][]string{}
	trees, err := parse.Parse(mainName, text, "", "", parseFuncs)
	if err != nil {
		return g
	}
	var walk func(n parse.Node, from string)
	walk = func(n parse.Node, from string) {
		switch x := n.(type) {
		case *parse.ListNode:
			if x != nil {
				for _, c := range x.Nodes {
					walk(c, from)
				}
			}
		case *parse.IfNode:
			walk(x.List, from)
			walk(x.ElseList, from)
		case *parse.RangeNode:
			walk(x.List, from)
			walk(x.ElseList, from)
		case *parse.WithNode:
			walk(x.List, from)
			walk(x.ElseList, from)
		case *parse.TemplateNode:
			g[from] = append(g[from], x.Name)
		}
	}
	for name, t := range trees {
		if t.Root != nil {
			walk(t.Root, name)
		}
		if _, ok := g[name]; !ok {
			g[name] = nil
		}
	}
	return g
}

func closure(g map[string][]string, root string) map[string]bool {
	seen := map[string]bool{}
	var rec func(n string)
	rec = func(n string) {
		if seen[n] {
			return
		}
		seen[n] = true
		for _, c := range g[n] {
			rec(c)
		}
	}
	rec(root)
	return seen
}

func isExecKind(k string) bool { return k == "X" || k == "Y" }

// histVerdicts runs the history and the reference histories and returns the case fields.
func histVerdicts(ops []histOp) []string {
	fields, run := execHistory(ops)
	// ---- bookkeeping: name space per handle, definitions per name space ----
	nsOfHandle := []int{}
	nsParent := map[int]int{}  // clone -> parent name space
	nsCloneAt := map[int]int{} // clone -> op index of the Clone
	nsCount := 0
	handleName := []string{} // template name of each handle ("?" unknown)
	graph := map[int]map[string][]string{}
	weird := false
	detached := map[int]int{} // handles whose object t.New(name) has replaced (at which op): from then on they denote a new, empty set of their own
	isDetached := func(h, k int) bool { at, ok := detached[h]; return ok && at <= k }
	targetNS := make([]int, len(ops))
	for k, op := range ops {
		targetNS[k] = -1
		if op.kind != "N" && op.h < len(nsOfHandle) && op.h >= 0 {
			targetNS[k] = nsOfHandle[op.h]
		}
		res := run.results[k]
		ok := strings.HasPrefix(res, "H:")
		switch op.kind {
		case "N":
			if ok {
				nsOfHandle = append(nsOfHandle, nsCount)
				handleName = append(handleName, op.name)
				graph[nsCount] = map[string][]string{}
				nsCount++
			}
		case "S":
			if ok {
				moved := -1
				for i, nm := range handleName {
					if nm == op.name && i < len(nsOfHandle) && nsOfHandle[i] == targetNS[k] {
						weird = true // New on an existing name detaches the old object
						if _, done := detached[i]; !done {
							detached[i] = k
						}
						// ... which from now on is the only member of a new, empty set of its own: every handle that
						// denotes it (and every handle obtained through one of them later) belongs to that set
						if moved < 0 {
							moved = nsCount
							graph[nsCount] = map[string][]string{}
							nsCount++
						}
						nsOfHandle[i] = moved
					}
				}
				nsOfHandle = append(nsOfHandle, targetNS[k])
				handleName = append(handleName, op.name)
			}
		case "L":
			if ok {
				nsOfHandle = append(nsOfHandle, targetNS[k])
				handleName = append(handleName, op.name)
			}
		case "C":
			if ok {
				nsParent[nsCount] = targetNS[k]
				nsCloneAt[nsCount] = k
				g := map[string][]string{}
				for n, c := range graph[targetNS[k]] {
					g[n] = c
				}
				graph[nsCount] = g
				nsOfHandle = append(nsOfHandle, nsCount)
				handleName = append(handleName, handleName[op.h])
				nsCount++
			}
		case "P":
			if res == "parseok" && targetNS[k] >= 0 {
				for n, c := range callees(op.text, handleName[op.h]) {
					if len(c) > 0 || graph[targetNS[k]][n] == nil {
						graph[targetNS[k]][n] = c
					}
				}
			}
		}
	}
	if nsCount == 0 {
		weird = true
	}
	execName := func(k int) string {
		if ops[k].kind == "Y" {
			return ops[k].name
		}
		if ops[k].h < len(handleName) {
			return handleName[ops[k].h]
		}
		return "?"
	}
	defKind := func(k string) bool { return k == "N" || k == "S" || k == "P" || k == "C" || k == "L" || k == "Z" || k == "O" }
	succeeded := func(k int) bool {
		r := run.results[k]
		return strings.HasPrefix(r, "H:") || r == "parseok" || r == "info"
	}
	panickedBefore := func(k int) bool {
		for j := 0; j < k; j++ {
			if strings.Contains(run.results[j], "panic") {
				return true
			}
		}
		return false
	}
	var verdicts, frozenVerdicts []string
	everFailed := map[string]bool{} // ns/name that returned an analysis error
	reachedBefore := map[int]map[string]bool{}
	for k, op := range ops {
		ns := targetNS[k]
		switch {
		case isExecKind(op.kind) && run.results[k] != "badop":
			res, out := run.results[k], run.outputs[k]
			// fresh set with the same definitions
			var fresh []histOp
			for j := 0; j < k; j++ {
				if defKind(ops[j].kind) && succeeded(j) {
					fresh = append(fresh, ops[j])
				}
			}
			fresh = append(fresh, op)
			_, fr := execHistory(fresh)
			fres, fout := fr.results[len(fresh)-1], fr.outputs[len(fresh)-1]
			// which analysis error is reported may depend on WHEN a configuration call (CSPCompatible) was made
			// relative to the first, failing, execution (the failure is sticky): two analysis errors with nothing
			// written count as the same result
			sameRes := func(a, b string) bool {
				return a == b || (strings.HasPrefix(a, "escape:") && strings.HasPrefix(b, "escape:"))
			}
			// projection on the op's own name space chain
			pres, psame := "-", "-"
			if !weird && ns >= 0 {
				chain := map[int]int{} // name space -> ops allowed before this index (k = no limit)
				cur, limit := ns, k
				for {
					chain[cur] = limit
					p, isClone := nsParent[cur]
					if !isClone {
						break
					}
					limit = nsCloneAt[cur]
					cur = p
				}
				var proj []histOp
				for j := 0; j < k; j++ {
					keep := false
					if ops[j].kind == "N" {
						keep = true
					} else if lim, in := chain[targetNS[j]]; in && j <= lim {
						keep = true
					}
					if keep {
						proj = append(proj, ops[j])
					} else if strings.HasPrefix(run.results[j], "H:") {
						proj = append(proj, histOp{kind: "N", name: "placeholder"}) // keeps handle numbering
					}
				}
				proj = append(proj, op)
				_, pr := execHistory(proj)
				pres = pr.results[len(proj)-1]
				psame = b01(pres == res && pr.outputs[len(proj)-1] == out)
			}
			// frozen: once the name space has been executed, no Parse call may change a later result: the same
			// history without the Parse calls made after the first execution of this name space gives the same
			// result (Parse through this set's handles fails; through other sets' handles - clones, a handle
			// detached by t.New - it concerns those sets only)
			k0 := -1
			for j := 0; j < k; j++ {
				if isExecKind(ops[j].kind) && targetNS[j] == ns && run.results[j] != "badop" {
					k0 = j
					break
				}
			}
			if k0 >= 0 && ns >= 0 && !isDetached(op.h, k) {
				var np []histOp
				dropped := false
				for j := 0; j < k; j++ {
					if j > k0 && ops[j].kind == "P" {
						dropped = true
						continue
					}
					np = append(np, ops[j])
				}
				if dropped {
					np = append(np, op)
					_, nr := execHistory(np)
					// what a set does after an API call has panicked is C08's business
					panicked := false
					for j := 0; j <= k; j++ {
						if strings.Contains(run.results[j], "panic") {
							panicked = true
						}
					}
					for _, r := range nr.results {
						if strings.Contains(r, "panic") {
							panicked = true
						}
					}
					if !panicked {
						same := nr.results[len(np)-1] == res && nr.outputs[len(np)-1] == out
						frozenVerdicts = append(frozenVerdicts, fmt.Sprintf("F%d:%s", k, b01(same)))
					}
				}
			}
			// sticky: an earlier analysis failure of this template
			key := fmt.Sprintf("%d/%s", ns, execName(k))
			sticky := "1"
			// "returns an error and writes nothing": the analysis error, or - after the name was redefined by
			// t.New, which leaves an empty template - the incomplete / undefined template error
			if everFailed[key] && !isDetached(op.h, k) && !((strings.HasPrefix(res, "escape:") || res == "incomplete" || res == "undefined") && out == "") {
				sticky = "0"
			}
			if strings.HasPrefix(res, "escape:") {
				everFailed[key] = true
			}
			// which templates does this execution reach that an earlier execution of the name space reached
			var shared, opening []string
			if ns >= 0 {
				reach := closure(graph[ns], execName(k))
				for n := range reach {
					if reachedBefore[ns][n] {
						shared = append(shared, n)
					}
				}
				sort.Strings(shared)
				for _, n := range shared {
					// a context-opening helper: on its own it does not end in a text context
					probe := append(append([]histOp{}, fresh[:len(fresh)-1]...), histOp{kind: "Y", h: op.h, name: n})
					_, pr := execHistory(probe)
					if pr.results[len(probe)-1] == "escape:4" {
						opening = append(opening, n)
					}
				}
				if reachedBefore[ns] == nil {
					reachedBefore[ns] = map[string]bool{}
				}
				for n := range reach {
					reachedBefore[ns][n] = true
				}
			}
			// ...ToHTML returns the zero HTML whenever it returns an error (checked on the fresh set)
			tohtml := "1"
			if h := fr.handles; op.h < len(h) && h[op.h] != nil {
				func() {
					defer func() { recover() }()
					if op.kind == "X" {
						v, err := h[op.h].ExecuteToHTML(histData)
						if err != nil && v.String() != "" {
							tohtml = "0"
						}
					} else {
						v, err := h[op.h].ExecuteTemplateToHTML(op.name, histData)
						if err != nil && v.String() != "" {
							tohtml = "0"
						}
					}
				}()
			}
			// repeating the call returns the same result
			rep := "-"
			if k > 0 && ops[k-1] == op {
				rep = b01(run.results[k-1] == res && run.outputs[k-1] == out)
			}
			verdicts = append(verdicts, fmt.Sprintf("%d|%s|%d|fresh:%s:%s|proj:%s:%s|sticky:%s|shared:%s|opening:%s|tohtml:%s|rep:%s",
				k, res, len(out), fres, b01(sameRes(fres, res) && fout == out), pres, psame, sticky, strings.Join(shared, ","), strings.Join(opening, ","), tohtml, rep))
		case (op.kind == "P" || op.kind == "C") && panickedBefore(k):
			// what a set does after an API call has panicked is C08's business
		case op.kind == "P" && run.results[k] != "badop":
			// after any execution in the name space every Parse must fail
			late := false
			for j := 0; j < k; j++ {
				if isExecKind(ops[j].kind) && targetNS[j] == ns && run.results[j] != "badop" {
					late = true
				}
			}
			if late && !weird {
				verdicts = append(verdicts, fmt.Sprintf("P%d:%s", k, b01(run.results[k] == "cannotparse")))
			}
		case op.kind == "C" && run.results[k] != "badop":
			// cloning a template that has already been executed must fail
			executed := false
			for j := 0; j < k; j++ {
				if ops[j].kind == "X" && ops[j].h == op.h && run.results[j] != "badop" && run.results[j] != "incomplete" {
					executed = true
				}
			}
			if executed && !isDetached(op.h, k) {
				verdicts = append(verdicts, fmt.Sprintf("C%d:%s", k, b01(run.results[k] == "cannotclone")))
			}
		}
	}
	verdicts = append(verdicts, frozenVerdicts...)
	v := strings.Join(verdicts, ";")
	if v == "" {
		v = "-"
	}
	return append(fields, v)
}

func init() {
	for _, s := range []string{"hist05", "hist06", "hist07"} {
		stream := s
		reg(stream, 1, func(c *caseWriter, in []string) {
			c.Case(stream, append([]string{hx(in[0])}, histVerdicts(decodeOps(in[0]))...)...)
		})
	}
}

// genPropHistories emits histories for one of the property streams: shared-helper sets executed in
// different orders, failing templates mixed with callers, clones, late parses.
func genPropHistories(c *caseWriter, stream string, quick bool) {
	emitH := func(ops []histOp) { emit(c, stream, encodeOps(ops)) }
	for _, s := range extraSeeds {
		if ops := decodeOps(s); len(ops) > 0 {
			emitH(ops)
		}
	}
	for _, d := range defPool {
		g := callees(d, "main")
		var names []string
		for n := range g {
			names = append(names, n)
		}
		sort.Strings(names)
		base := []histOp{{kind: "N", name: "main"}, {kind: "P", h: 0, text: d}}
		// every order of executing two members, and repetition
		for _, a := range names {
			emitH(append(append([]histOp{}, base...), histOp{kind: "Y", h: 0, name: a}, histOp{kind: "Y", h: 0, name: a}))
			for _, b := range names {
				if a != b {
					emitH(append(append([]histOp{}, base...), histOp{kind: "Y", h: 0, name: a}, histOp{kind: "Y", h: 0, name: b}, histOp{kind: "Y", h: 0, name: a}))
				}
			}
		}
		// clone families: the original, two sibling clones and a clone of a clone; one member executed in one set,
		// then another (and the same) member in another set, both orders
		if len(names) >= 2 {
			for _, a := range names {
				for _, b := range names {
					if a == b {
						continue
					}
					fam := append(append([]histOp{}, base...), histOp{kind: "C", h: 0}, histOp{kind: "C", h: 0}, histOp{kind: "C", h: 1})
					emitH(append(append([]histOp{}, fam...), histOp{kind: "Y", h: 0, name: a}, histOp{kind: "Y", h: 1, name: b}, histOp{kind: "Y", h: 1, name: a}, histOp{kind: "Y", h: 0, name: b}))
					emitH(append(append([]histOp{}, fam...), histOp{kind: "Y", h: 1, name: a}, histOp{kind: "Y", h: 2, name: b}, histOp{kind: "Y", h: 3, name: b}, histOp{kind: "Y", h: 0, name: b}, histOp{kind: "Y", h: 3, name: a}))
				}
			}
		}
		// configuration calls (CSPCompatible, Option) on one set of a clone family after the clones were taken: the
		// other sets - and clones taken from THEM later - must not see them
		{
			x := names[len(names)-1]
			fam := append(append([]histOp{}, base...), histOp{kind: "C", h: 0}, histOp{kind: "C", h: 1})
			emitH(append(append([]histOp{}, fam...), histOp{kind: "Z", h: 0}, histOp{kind: "X", h: 1}, histOp{kind: "Y", h: 2, name: x}, histOp{kind: "X", h: 2}, histOp{kind: "X", h: 0}))
			emitH(append(append([]histOp{}, fam...), histOp{kind: "Z", h: 1}, histOp{kind: "X", h: 2}, histOp{kind: "Y", h: 0, name: x}, histOp{kind: "X", h: 0}, histOp{kind: "X", h: 1}))
			opt := append([]histOp{{kind: "N", name: "main"}, {kind: "O", h: 0, name: "missingkey=error"}}, base[1:]...)
			emitH(append(append([]histOp{}, opt...), histOp{kind: "C", h: 0}, histOp{kind: "O", h: 1, name: "missingkey=zero"}, histOp{kind: "X", h: 1}, histOp{kind: "C", h: 0}, histOp{kind: "X", h: 2}, histOp{kind: "Y", h: 2, name: x}, histOp{kind: "X", h: 0}))
			emitH(append(append([]histOp{}, opt...), histOp{kind: "C", h: 0}, histOp{kind: "O", h: 0, name: "missingkey=zero"}, histOp{kind: "C", h: 1}, histOp{kind: "X", h: 2}, histOp{kind: "Y", h: 2, name: x}, histOp{kind: "X", h: 1}))
		}
		// a handle obtained by Lookup (handle 1), the set executed, the name redefined through t.New (handle 2), then
		// Parse through the OLD handle (it belongs to a set of its own now): the executed set must not see that definition
		for i, a := range names {
			if i >= 3 {
				break
			}
			late := "<script>alert(1)</script>{{.A}}" // parsed through the old handle it is the new body of its own name
			emitH(append(append([]histOp{}, base...), histOp{kind: "L", h: 0, name: a}, histOp{kind: "Y", h: 0, name: a}, histOp{kind: "S", h: 0, name: a},
				histOp{kind: "P", h: 1, text: late}, histOp{kind: "Y", h: 0, name: a}, histOp{kind: "X", h: 0}, histOp{kind: "Y", h: 0, name: "main"}, histOp{kind: "X", h: 1}))
			emitH(append(append([]histOp{}, base...), histOp{kind: "L", h: 0, name: a}, histOp{kind: "X", h: 0}, histOp{kind: "S", h: 0, name: a},
				histOp{kind: "P", h: 1, text: late}, histOp{kind: "X", h: 0}, histOp{kind: "Y", h: 0, name: "main"}, histOp{kind: "Y", h: 0, name: a}))
			emitH(append(append([]histOp{}, base...), histOp{kind: "L", h: 0, name: a}, histOp{kind: "X", h: 0}, histOp{kind: "S", h: 1, name: a},
				histOp{kind: "P", h: 1, text: late}, histOp{kind: "P", h: 2, text: late}, histOp{kind: "Y", h: 0, name: a}, histOp{kind: "X", h: 0}))
		}
		// the root name redefined through t.New BEFORE anything was executed: handle 0 is detached (a set of its own),
		// executing through it freezes that set only; the live set (handles 1..) can still be parsed and then executed
		// (thorough-tier false alarm of the frozen oracle, hist07#8909: kept as a directed case)
		emitH([]histOp{{kind: "N", name: "main"}, {kind: "S", h: 0, name: "main"}, {kind: "P", h: 1, text: d}, {kind: "Y", h: 0, name: "h"}, {kind: "X", h: 0},
			{kind: "S", h: 1, name: "st"}, {kind: "P", h: 2, text: "{{define \"st\"}}m{{end}}"}, {kind: "Y", h: 2, name: "st"}, {kind: "X", h: 1}, {kind: "P", h: 1, text: "late"}})
		// a member created by t.New that was never parsed ("st"), Clone, then the clone is asked for it: whatever handle
		// the clone hands out (the unchanged engine hands out none: text/template's Clone drops members without a tree)
		// must belong to the clone - Parse through it must not reach the original, nor may it be cloned after execution
		emitH(append(append([]histOp{}, base...), histOp{kind: "S", h: 0, name: "st"}, histOp{kind: "C", h: 0}, histOp{kind: "L", h: 2, name: "st"},
			histOp{kind: "P", h: 3, text: "{{define \"main\"}}<i>changed</i>{{end}}{{define \"st\"}}s{{end}}"}, histOp{kind: "X", h: 0}, histOp{kind: "Y", h: 0, name: "main"},
			histOp{kind: "X", h: 2}, histOp{kind: "X", h: 3}, histOp{kind: "P", h: 3, text: "late"}, histOp{kind: "C", h: 3}, histOp{kind: "X", h: 0}))
		// clone, execute the clone, then the original, late parses on both
		emitH(append(append([]histOp{}, base...), histOp{kind: "C", h: 0}, histOp{kind: "X", h: 1}, histOp{kind: "P", h: 1, text: "late"}, histOp{kind: "X", h: 0},
			histOp{kind: "P", h: 0, text: "{{define \"h\"}}changed{{end}}"}, histOp{kind: "X", h: 1}, histOp{kind: "X", h: 0}, histOp{kind: "C", h: 0}))
		emitH(append(append([]histOp{}, base...), histOp{kind: "C", h: 0}, histOp{kind: "P", h: 1, text: "{{define \"h\"}}<i>clone's own{{.A}}</i>{{end}}"},
			histOp{kind: "X", h: 1}, histOp{kind: "X", h: 0}, histOp{kind: "X", h: 1}))
	}
	n := 700
	if !quick {
		n = 30000
	}
	for i := 0; i < n; i++ {
		emitH(genHistory(4 + rng.Intn(9)))
	}
}
