//go:build c20 || allprops

package main

import (
	"path/filepath"
	"strconv"

	"github.com/google/safehtml/template"
)

func init() { props["C20"] = runC20 }

func init() {
	reg("tsrc_dir", 3, func(c *caseWriter, in []string) {
		outcome, out := guard(func() (string, string) {
			ts, err := template.VerifTrustedSourceFromConstantDir(in[0], in[1], in[2])
			if err != nil {
				return "err", ""
			}
			return "ok", ts.String()
		})
		c.Case("tsrc_dir", hx(in[0]), hx(in[1]), hx(in[2]), outcome, hx(out))
	})
	// the two standard-library functions the model transliterates, on their own
	reg("path_clean", 1, func(c *caseWriter, in []string) {
		outcome, out := guard(func() (string, string) { return "ok", filepath.Clean(in[0]) })
		c.Case("path_clean", hx(in[0]), outcome, hx(out))
	})
	reg("path_join", 3, func(c *caseWriter, in []string) {
		outcome, out := guard(func() (string, string) { return "ok", filepath.Join(in[0], in[1], in[2]) })
		c.Case("path_join", hx(in[0]), hx(in[1]), hx(in[2]), outcome, hx(out))
	})
}

func runC20(c *caseWriter) (string, bool, map[string]int) {
	if filepath.Separator != '/' || filepath.ListSeparator != ':' {
		panic("C20 models unix path semantics only")
	}
	type ds struct{ dir, src string }
	// representative constant dir / src combinations, including empty ones
	pairs := []ds{
		{"", ""}, {".", ""}, {"..", ""}, {"/", ""}, {"a", ""}, {"a/", ""}, {"a/b", ""}, {"a/../..", ""},
		{"/a//b/", ""}, {"./a", ""}, {"../x", ""}, {"/..", ""}, {"//", ""}, {"a/..", ""}, {"../..", ""},
		{"", "a"}, {"", "/"}, {"", "."}, {"", ".."}, {"", "s/t/"}, {"", "../x"},
		{"a", "b"}, {"a/", "/b"}, {"a", ".."}, {"a", "../.."}, {"a/b", "../c"}, {"/", "/"}, {"/", ".."},
		{"/a", "../.."}, {".", "."}, {"..", ".."}, {"tmpl/", "admin"}, {"/var/www//", "./t/"},
		{"a", "."}, {"a:b", ""}, {"a b", "c\x00d"}, {"...", ""}, {".a", "b."}, {"a/./", "./"}, {"é", "∕"},
		{"a//", "//b"}, {"./", "../"},
	}
	dirs := []string{"", ".", "..", "/", "a", "a/", "a/b", "a/../..", "/a//b/", "./a", "../x", "/..", "//", "a/..", "../..", "...", "a:b"}
	srcs := []string{"", "b", "/", ".", "..", "s/t/", "../x", "../..", "/b/", "./"}
	if tier == "thorough" {
		for _, d := range dirs {
			for _, s := range srcs {
				pairs = append(pairs, ds{d, s})
			}
		}
	}
	tsrc := func(d, s, f string) { emit(c, "tsrc_dir", d, s, f) }
	forPairs := func(f string) {
		for _, p := range pairs {
			tsrc(p.dir, p.src, f)
		}
	}
	// a few pairs for the wide filename families (thorough: all)
	core := []ds{{"", ""}, {"a", ""}, {"/", ""}, {"a/../..", ""}, {"tmpl/", "admin"}}
	if tier == "thorough" {
		core = pairs
	}
	forCore := func(f string) {
		for _, p := range core {
			tsrc(p.dir, p.src, f)
		}
	}

	// (1) directed-search seeds first: as filename for every pair, as dir, as src, as a path
	for _, s := range extraSeeds {
		for _, v := range seedVariants(s) {
			forPairs(v)
			for _, f := range []string{"", ".", "x", "..", "a/b", "a:b"} {
				tsrc(v, "", f)
				tsrc("", v, f)
				tsrc("a", v, f)
			}
			emit(c, "path_clean", v)
			emit(c, "path_join", v, "", "x")
			emit(c, "path_join", "a", v, "x")
			emit(c, "path_join", "a", "b", v)
		}
	}

	// (2) exhaustive small scope: every filename of <= depth symbols over {. / : a NUL}, for every pair
	alphabet := []string{".", "/", ":", "a", "\x00"}
	depth := 4
	if tier == "thorough" {
		depth = 5
	}
	product(alphabet, depth, func(f string) {
		forPairs(f)
		emit(c, "path_clean", f)
	})
	// Clean / Join on their own: all paths of <= 6 (7) symbols over {/ . a}
	cdepth := 6
	if tier == "thorough" {
		cdepth = 8
	}
	product([]string{"/", ".", "a"}, cdepth, func(p string) { emit(c, "path_clean", p) })
	jdepth := 2
	if tier == "thorough" {
		jdepth = 3
	}
	var elems []string
	product([]string{"/", ".", "a"}, jdepth, func(p string) { elems = append(elems, p) })
	for _, a := range elems {
		for _, b := range elems {
			for _, f := range elems {
				emit(c, "path_join", a, b, f)
			}
		}
	}
	for _, p := range pairs {
		emit(c, "path_clean", p.dir)
		emit(c, "path_clean", p.src)
		emit(c, "path_clean", p.dir+"/"+p.src)
		for _, f := range []string{"", ".", "..", "x", "x/", "/x", "../x", "a:b", "..."} {
			emit(c, "path_join", p.dir, p.src, f)
			emit(c, "path_clean", p.dir+"/"+p.src+"/"+f)
		}
	}

	// every single byte alone, leading, trailing, inner, and next to dots
	for b := 0; b < 256; b++ {
		s := string([]byte{byte(b)})
		forPairs(s)
		for _, f := range []string{"a" + s, s + "a", "a" + s + "b", "." + s, s + ".", ".." + s, s + "..", "." + s + "."} {
			forCore(f)
		}
		emit(c, "path_clean", "a"+s+"b/"+s)
	}
	// dots, white space, Unicode look-alikes of '/', '.', ':' and encodings of them, Windows separators
	special := []string{
		"..", "...", "....", ". .", ".. ", " ..", "..\x00", "\x00..", ".\x00.", "..\t", "..\n", "\n", "\r\n", " ", "\t", "\v", "\f",
		"\u2215", "\uff0e", "\u2024", "\u2215..", "..\u2215", "\uff0e\uff0e", "\u2024\u2024", ".\uff0e", "\uff0e.", "\u2024.", "\u2044", "\uff0f", "\u29f8",
		"\uff1a", "\u02d0", "\ua789", "\u2236", "a\u2215b", "a\uff0fb", "..\uff0f..", "\u2025", "\u2026",
		"%2f", "%2F", "%2e%2e", "..%2f", "%3a", "&#47;", "\\", "..\\", "..\\..", "a\\b", "C:", "C:\\x", "\\\\h\\s", ";", "a;b", "|", "~", "~root", "-", "--", "*", "?", "[a]", "{a,b}",
		"\xc0\xaf", "\xe0\x80\xaf", "\xc0\xae\xc0\xae", "\xc0\xba", "\x2f", "\x3a", "\xaf", "\xae\xae",
		"index.html", "a.b.c", ".hidden", "trailing.", "name with spaces.tmpl", "con", "nul", "a\x00/b", "a\x00:b",
	}
	for _, f := range special {
		forPairs(f)
		forCore("a" + f)
		forCore(f + "a")
		emit(c, "path_clean", f)
		emit(c, "path_clean", "d/"+f+"/e")
	}
	// (4) malformed UTF-8 around the separators (IndexAny scans runes)
	for _, m := range malformed {
		for _, f := range []string{m, m + "/", "/" + m, m + ":", m + "..", ".." + m, m + "/..", "a" + m + "b"} {
			forCore(f)
		}
		emit(c, "path_clean", m+"/"+m+"/..")
	}

	// (3) structured random: filenames and paths from hostile pieces
	pieces := []string{".", "..", "...", "/", ":", "a", "b", "\x00", " ", "\t", "\n", "\u2215", "\uff0e", "\u2024", "\\", "-", "~", "é", "\xff", "\xc0\xaf", "%2f", "x.tmpl"}
	ppieces := []string{"/", "/", ".", "..", "a", "b", "c.d", "//", "/./", "/../", "...", " ", "\x00", ":"}
	n := 3000
	if tier == "thorough" {
		n = 100000
	}
	for i := 0; i < n; i++ {
		f := randFrom(pieces, 6)
		d, s := randFrom(ppieces, 7), randFrom(ppieces, 5)
		switch rng.Intn(4) {
		case 0:
			p := pairs[rng.Intn(len(pairs))]
			tsrc(p.dir, p.src, f)
		case 1:
			tsrc(d, "", f)
		case 2:
			tsrc("", s, f)
		default:
			tsrc(d, s, f)
		}
		emit(c, "path_clean", d)
		emit(c, "path_join", d, s, f)
	}
	return "tsrc_dir: " + strconv.Itoa(len(pairs)) + " representative (dir, src) pairs (empty, ., .., /, trailing and doubled slashes, a/../.., rooted, ../x, with list separator / NUL / non-ASCII) x filenames: every string of <= depth symbols over {. / : a NUL} (exhaustive), every single byte alone (all pairs) and leading/trailing/inner/next to dots (5 core pairs; thorough: all), dot and white-space variants, Unicode look-alikes U+2215 U+FF0E U+2024 U+FF0F U+FF1A etc., percent/entity encodings, backslash forms, malformed UTF-8 around separators, random from hostile pieces with random dirs; path_clean: every path of <= cdepth symbols over {/ . a} and the above; path_join: all triples of elements of <= jdepth symbols over {/ . a} and the above; non-trivial = the constructor accepted the filename (returned a TrustedSource) / Clean changed its input", true,
		map[string]int{"depth": depth, "clean_depth": cdepth, "join_depth": jdepth, "pairs": len(pairs)}
}
