//go:build c07 || allprops

package main

import (
	"bytes"
	"fmt"
	"io/ioutil"
	"os"
	"path/filepath"
	"runtime"
	"sync"
	"sync/atomic"
	"syscall"
	"time"

	"github.com/google/safehtml/template"
)

func init() { props["C07"] = runC07 }

func runC07(c *caseWriter) (string, bool, map[string]int) {
	quick := tier != "thorough"
	genPropHistories(c, "hist07", quick)
	genHistories(c, quick)
	for k := 0; k < 3*len(c07RaceSets); k++ {
		emit(c, "clone_race", fmt.Sprint(k))
	}
	for _, api := range []string{"files", "glob", "fs"} {
		for _, first := range []string{"X", "Y"} {
			emit(c, "parse_overlap", api, first)
		}
	}
	return "clone_race: on 5 sets (one of 26 long members) x 3 x 240 fresh copies, Clone of the root races (spinning barrier, 0-3 yields on either side) with the first ExecuteTemplate of a member of the parent; a clone that is returned must execute every member exactly as a fresh set does. API histories over a pool of definition texts (hist.go defPool) (helpers shared between callers in different contexts, context-opening helpers, failing/recursive/undefined/empty callees, break/continue, predefined escapers): every pool set with every order and repetition of executing two of its members, clone / late-parse scenarios, and random histories of 4-12 ops (New, t.New, Parse, Clone, Lookup, Execute, ExecuteTemplate, Templates/DefinedTemplates/Name, CSPCompatible) weighted towards doing something after an execution; every exec op is also run on a fresh set with the same definitions and on the projection of the history to its own name space; non-trivial = the history executes a template", false, nil
}

// ---------------------------------------------------------------- clone taken during a first execution
//
// clone_race <set>: on fresh sets, Clone of the root races with the first ExecuteTemplate of a member of
// the parent.  Sequentially there are two outcomes: the clone was taken before the execution (it is an
// unexecuted, independent copy) or after it (Clone is refused).  A clone that was returned must therefore
// behave exactly like a fresh set with the same definitions: every member executed in order on the
// clone gives the result (error class and bytes) it gives on a fresh set.

var c07RaceSets = [][][2]string{
	{{"row", `<li>{{template "val" .}}</li>`}, {"val", `<b title="{{.}}">{{.}}</b>`}, {"page", `<ul>{{template "row" .}}</ul><a href="/p?q={{template "val2" .}}">x</a>`}, {"val2", `{{.}}`}},
	{{"a", `<p>{{template "h" .}}</p>`}, {"b", `<a title="{{template "h" .}}">k</a>`}, {"h", `{{.}}`}, {"c", `<a href="/x?y={{template "h" .}}">l</a>`}},
	{{"a", `<p>{{.}}</p>`}, {"f", `<a href="{{.}}`}, {"g", `{{template "f" .}}`}, {"b", `<i>{{template "a" .}}</i>`}},
	{{"r", `{{if .}}<li>{{.}}</li>{{template "r" ""}}{{end}}`}, {"a", `<ol>{{template "r" .}}</ol>`}, {"b", `<script>var x = {{template "k" .}};</script>`}, {"k", `{{.}}`}},
}

// a big set: copying its trees and analysing it take long enough for the two to overlap
func init() {
	var big [][2]string
	var page string
	for i := 0; i < 24; i++ {
		body := "<ul>"
		for j := 0; j < 12; j++ {
			body += fmt.Sprintf(`<li class="c%d" title="{{.}}">{{template "val" .}}<a href="/p%d?q={{.}}">{{.}}</a></li>`, j, j)
		}
		name := fmt.Sprintf("m%02d", i)
		big = append(big, [2]string{name, body + "</ul>"})
		page += fmt.Sprintf(`{{template "%s" .}}`, name)
	}
	big = append(big, [2]string{"val", `<b>{{.}}</b>`}, [2]string{"page", page})
	c07RaceSets = append(c07RaceSets, big)
}

func c07BuildSet(defs [][2]string) *template.Template {
	root := template.New("root")
	template.VerifParse(root, "root {{.}}")
	for _, d := range defs {
		template.VerifParse(root.New(d[0]), d[1])
	}
	return root
}

func c07ExecAll(t *template.Template, defs [][2]string) []string {
	var res []string
	for _, d := range defs {
		res = append(res, func() (r string) {
			defer func() {
				if p := recover(); p != nil {
					r = "panic:" + classifyPanic(p)
				}
			}()
			var buf bytes.Buffer
			err := t.ExecuteTemplate(&buf, d[0], "<x y='z'>&")
			return classifyErr(err) + "|" + buf.String()
		}())
	}
	return res
}

func init() {
	reg("clone_race", 1, func(c *caseWriter, in []string) {
		var k int
		fmt.Sscan(in[0], &k)
		defs := c07RaceSets[k%len(c07RaceSets)]
		want := c07ExecAll(c07BuildSet(defs), defs)
		rounds, cloned, bad, detail := 240, 0, 0, ""
		for r := 0; r < rounds; r++ {
			root := c07BuildSet(defs)
			var clone *template.Template
			var cerr error
			var arrived int32
			var wg sync.WaitGroup
			wg.Add(2)
			meet := func() {
				atomic.AddInt32(&arrived, 1)
				for spins := 0; atomic.LoadInt32(&arrived) < 2; spins++ {
					if spins > 1<<14 {
						runtime.Gosched()
					}
				}
			}
			go func() {
				defer wg.Done()
				defer func() { recover() }()
				meet()
				if r%2 == 0 {
					for y := (r / 2) % 4; y > 0; y-- {
						runtime.Gosched()
					}
				}
				clone, cerr = root.Clone()
			}()
			go func() {
				defer wg.Done()
				defer func() { recover() }()
				meet()
				if r%2 == 1 {
					for y := (r / 2) % 4; y > 0; y-- {
						runtime.Gosched()
					}
				}
				root.ExecuteTemplate(ioutil.Discard, defs[len(defs)-1-(r/8)%2][0], "v")
			}()
			wg.Wait()
			if cerr != nil || clone == nil {
				continue
			}
			cloned++
			got := c07ExecAll(clone, defs)
			for i := range got {
				if got[i] != want[i] {
					bad++
					if detail == "" {
						detail = fmt.Sprintf("round %d: %s on the clone gives %q, on a fresh set %q", r, defs[i][0], got[i], want[i])
					}
					break
				}
			}
		}
		c.Case("clone_race", in[0], fmt.Sprint(rounds), fmt.Sprint(cloned), fmt.Sprint(bad), hx(detail))
	})
}

// ---------------------------------------------------------------- a file parse that overlaps the first execution
//
// parse_overlap <api> <first>: ParseFiles / ParseGlob / ParseFS on an executed set must fail.  Here the call
// STARTS before the set's first execution and reads its file after it: the file is a FIFO, so the read
// blocks until the harness (which executes the set in between) writes the text.  Deterministic: the
// harness opens the FIFO for writing, which returns only once the parsing goroutine has opened it for
// reading.  Whatever the call answers, the set must afterwards execute X as it did before.
func init() {
	reg("parse_overlap", 2, func(c *caseWriter, in []string) {
		api, first := in[0], in[1]
		dir, err := ioutil.TempDir("", "verif-c07-")
		if err != nil {
			c.Case("parse_overlap", in[0], in[1], "setup", hx(err.Error()), "", "")
			return
		}
		defer os.RemoveAll(dir)
		fifo := filepath.Join(dir, "late.tmpl")
		if err := syscall.Mkfifo(fifo, 0600); err != nil {
			c.Case("parse_overlap", in[0], in[1], "setup", hx(err.Error()), "", "")
			return
		}
		root := template.New("root")
		template.VerifParse(root, `{{define "X"}}<b>{{.}}</b>{{end}}{{define "Y"}}<i>{{template "X" .}}</i>{{end}}root`)
		type res struct {
			t   *template.Template
			err error
		}
		done := make(chan res, 1)
		os.Setenv("VERIF_C07_LATE", fifo)
		os.Setenv("VERIF_C07_DIR", dir)
		go func() {
			defer func() {
				if p := recover(); p != nil {
					done <- res{nil, fmt.Errorf("panic: %v", p)}
				}
			}()
			var t *template.Template
			var err error
			switch api {
			case "files":
				t, err = root.ParseFilesFromTrustedSources(template.TrustedSourceFromEnvVar("VERIF_C07_LATE"))
			case "glob":
				t, err = root.ParseGlobFromTrustedSource(template.TrustedSourceJoin(template.TrustedSourceFromEnvVar("VERIF_C07_DIR"), template.TrustedSourceFromConstant("*.tmpl")))
			default:
				t, err = root.ParseFS(template.TrustedFSFromTrustedSource(template.TrustedSourceFromEnvVar("VERIF_C07_DIR")), "late.tmpl")
			}
			done <- res{t, err}
		}()
		// returns once the parsing goroutine has opened the FIFO for reading (or gives up: the call failed early)
		var w *os.File
		opened := make(chan *os.File, 1)
		go func() {
			f, _ := os.OpenFile(fifo, os.O_WRONLY, 0)
			opened <- f
		}()
		early := false
		var r res
		select {
		case w = <-opened:
		case r = <-done:
			early = true
		case <-time.After(5 * time.Second):
			early = true
			r = res{nil, fmt.Errorf("timeout")}
		}
		var b0 bytes.Buffer
		e0 := root.ExecuteTemplate(&b0, first, "<v>")
		before := classifyErr(e0) + "|" + b0.String()
		if w != nil {
			w.WriteString(`{{define "X"}}<script>alert(1)</script>{{.}}{{end}}late`)
			w.Close()
		} else {
			// unblock the opener goroutine
			if f, err := os.OpenFile(fifo, os.O_RDONLY|syscall.O_NONBLOCK, 0); err == nil {
				f.Close()
			}
		}
		if !early {
			select {
			case r = <-done:
			case <-time.After(5 * time.Second):
				r = res{nil, fmt.Errorf("timeout")}
			}
		}
		parse := "refused"
		if r.err == nil {
			parse = "accepted"
		}
		var b1 bytes.Buffer
		e1 := root.ExecuteTemplate(&b1, "X", "<v>")
		var b2 bytes.Buffer
		e2 := c07Fresh().ExecuteTemplate(&b2, "X", "<v>")
		c.Case("parse_overlap", in[0], in[1], parse, hx(before), hx(classifyErr(e1)+"|"+b1.String()), hx(classifyErr(e2)+"|"+b2.String()))
	})
}

func c07Fresh() *template.Template {
	root := template.New("root")
	template.VerifParse(root, `{{define "X"}}<b>{{.}}</b>{{end}}{{define "Y"}}<i>{{template "X" .}}</i>{{end}}root`)
	return root
}
