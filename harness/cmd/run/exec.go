//go:build tmpl || allprops

package main

import (
	"bytes"
	"fmt"
	"io/ioutil"
	"strings"
	"time"

	"github.com/google/safehtml/template"
)

// Data wire:  <value wire>  |  map:k=<value wire>,k=...  |  list:<value wire>|<value wire>...
// (value wires contain only [a-z0-9:-] so ',', '=', '|' are safe separators)
func dataFromWire(w string) interface{} {
	switch {
	case strings.HasPrefix(w, "map:"):
		m := map[string]interface{}{}
		if len(w) > 4 {
			for _, kv := range strings.Split(w[4:], ",") {
				p := strings.SplitN(kv, "=", 2)
				m[p[0]] = dataFromWire(p[1])
			}
		}
		return m
	case strings.HasPrefix(w, "list:"):
		var l []interface{}
		if len(w) > 5 {
			for _, x := range strings.Split(w[5:], "|") {
				l = append(l, dataFromWire(x))
			}
		}
		return l
	case w == "true":
		return true
	case w == "false":
		return false
	}
	return valueFromWire(w)
}

type execResult struct {
	outcome string // ok | parseerr | escape:<code> | exec | incomplete | undefined | panic:<class> | timeout
	out     string
}

// runTemplate parses text into a fresh set named "main" and executes `name` ("" = main) with data.
func runTemplate(text, name string, data interface{}, csp bool) execResult {
	ch := make(chan execResult, 1)
	go func() {
		var r execResult
		defer func() {
			if p := recover(); p != nil {
				r.outcome = classifyPanic(p)
			}
			ch <- r
		}()
		t := template.New("main")
		if csp {
			t.CSPCompatible()
		}
		if _, err := template.VerifParse(t, text); err != nil {
			r.outcome = "parseerr"
			return
		}
		var buf bytes.Buffer
		var err error
		// name = pre1 \x01 pre2 \x01 ... \x01 target : the pre templates are executed first, with the
		// same data, their output and errors discarded (a history on the same set); then the target
		if parts := strings.Split(name, "\x01"); len(parts) > 1 {
			for _, pre := range parts[:len(parts)-1] {
				if perr := func() (e error) {
					defer func() {
						if p := recover(); p != nil {
							e = fmt.Errorf("panic: %v", p)
						}
					}()
					return t.ExecuteTemplate(ioutil.Discard, pre, data)
				}(); perr != nil && strings.HasPrefix(perr.Error(), "panic: ") {
					r.outcome = "prepanic"
					return
				}
			}
			name = parts[len(parts)-1]
		}
		if name == "" {
			err = t.Execute(&buf, data)
		} else {
			err = t.ExecuteTemplate(&buf, name, data)
		}
		r.out = buf.String()
		switch c := classifyErr(err); {
		case err == nil:
			r.outcome = "ok"
		case c == "exec":
			r.outcome = "execerr"
		default:
			r.outcome = c
		}
	}()
	select {
	case r := <-ch:
		return r
	case <-time.After(5 * time.Second):
		return execResult{outcome: "timeout"}
	}
}

func init() {
	// tmpl_exec: <template text> <name> <data wire> -> outcome, bytes written
	reg("tmpl_exec", 3, func(c *caseWriter, in []string) {
		r := runTemplate(in[0], in[1], dataFromWire(in[2]), false)
		c.Case("tmpl_exec", hx(in[0]), hx(in[1]), hx(in[2]), r.outcome, hx(r.out))
	})
}

var _ = fmt.Sprint
