//go:build c08 || allprops

package main

import (
	"fmt"
	"sort"
	"strings"
	"text/template/parse"
	"time"

	"github.com/google/safehtml/template"
)

// C08: the template API is total.  Streams of this file (judged by ocaml/drv_c08.ml):
//   hist08  <hex ops> <done|timeout:k|crash:k> <nops> {<op wire> <result> <state>}*
//           same wire as "hist" (hist.go); every history runs under recover and a 5 s watchdog.
//           Oracle: the model replay (correspondence) and: NO op may end in panic:*, execpanic:* or
//           a timeout.
//   exec08  <text> <name> <data wire> <outcome> <out> <parsed wire>      (runTemplate, 5 s watchdog)
//   cat08   <ctx key> <text> <ctx:11> <ok|panic|timeout> <ctx':11> <n>   contextAfterText: totality,
//           progress (n > 0 or the state changed), n <= len, the result context is well-formed
//   esc08   <ctx key> <text> <csp> <ctx:11> <ok|panic|timeout> <ctx':11> <edited> <out>
//   wf08    <ctx key> <ctx:11>   a context reached by running the real contextAfterText: must satisfy wf_ctx

var (
	c08Timeouts int // watchdog expiries seen so far (each costs 5 s: generators stop after a few)
	c08Panics   int // text-level panics seen so far
)

const c08MaxTimeouts = 3

// watchdog runs f in a goroutine; false if it did not finish within 5 s, crash != "" if it panicked
// outside the per-op recover.
func watchdog(f func()) (finished bool, crash string) {
	done := make(chan string, 1)
	go func() {
		defer func() {
			if r := recover(); r != nil {
				done <- "crash:" + classifyPanic(r)
				return
			}
			done <- ""
		}()
		f()
	}()
	select {
	case m := <-done:
		return true, m
	case <-time.After(5 * time.Second):
		c08Timeouts++
		return false, ""
	}
}

func init() {
	props["C08"] = runC08
	reg("hist08", 1, func(c *caseWriter, in []string) {
		ops := decodeOps(in[0])
		var fields []string
		fin, crash := watchdog(func() { fields, _ = execHistory(ops) })
		if fin && crash == "" {
			c.Case("hist08", append([]string{hx(in[0]), "done"}, fields...)...)
			return
		}
		// find the shortest prefix that does not finish: its last op is the culprit
		k := 0
		pf := []string{"0"}
		for i := 1; i <= len(ops); i++ {
			var f []string
			fin2, crash2 := watchdog(func() { f, _ = execHistory(ops[:i]) })
			if !fin2 || crash2 != "" {
				break
			}
			k, pf = i, f
		}
		what := fmt.Sprintf("timeout:%d", k)
		if fin {
			what = fmt.Sprintf("%s:%d", crash, k)
		}
		c.Case("hist08", append([]string{hx(in[0]), what}, pf...)...)
	})
	reg("exec08", 3, func(c *caseWriter, in []string) {
		r := runTemplate(in[0], in[1], dataFromWire(in[2]), false)
		if r.outcome == "timeout" {
			c08Timeouts++
		}
		c.Case("exec08", hx(in[0]), hx(in[1]), hx(in[2]), r.outcome, hx(r.out), parsedWire("main", in[0]))
	})
	reg("cat08", 2, func(c *caseWriter, in []string) {
		v := unwire(in[0])
		outcome := "ok"
		var v1 vctx
		var n int
		fin, _ := watchdog(func() {
			defer func() {
				if r := recover(); r != nil {
					outcome = "panic"
					c08Panics++
				}
			}()
			v1, n = template.VerifContextAfterText(v, []byte(in[1]))
		})
		if !fin {
			outcome, v1, n = "timeout", vctx{}, 0
		}
		f := append([]string{hx(in[0]), hx(in[1])}, ctxWire(v)...)
		f = append(f, outcome)
		f = append(f, ctxWire(v1)...)
		f = append(f, fmt.Sprint(n))
		c.Case("cat08", f...)
	})
	reg("esc08", 3, func(c *caseWriter, in []string) {
		v := unwire(in[0])
		outcome := "ok"
		var v1 vctx
		var edited bool
		var out []byte
		fin, _ := watchdog(func() {
			defer func() {
				if r := recover(); r != nil {
					outcome = "panic"
					c08Panics++
				}
			}()
			v1, edited, out = template.VerifEscapeText(v, []byte(in[1]), in[2] == "1")
		})
		if !fin {
			outcome, v1, edited, out = "timeout", vctx{}, false, nil
		}
		f := append([]string{hx(in[0]), hx(in[1]), hx(in[2])}, ctxWire(v)...)
		f = append(f, outcome)
		f = append(f, ctxWire(v1)...)
		f = append(f, b01(edited), hx(string(out)))
		c.Case("esc08", f...)
	})
	reg("wf08", 1, func(c *caseWriter, in []string) {
		v := unwire(in[0])
		c.Case("wf08", append([]string{hx(in[0])}, ctxWire(v)...)...)
	})
}

// ---- definitions: every node kind the installed parser can produce, every analysis outcome ----

var c08Pool = []string{
	// break / continue in every position the parser admits
	`{{range .L}}{{break}}{{end}}`,
	`{{range .L}}{{continue}}{{end}}`,
	`{{range .L}}{{if .}}{{break}}{{end}}<li>{{.}}</li>{{end}}`,
	`{{range .L}}{{with .}}{{continue}}{{end}}{{else}}{{.A}}{{end}}`,
	`{{range .L}}{{range .}}{{break}}{{end}}{{continue}}{{end}}`,
	`<ul>{{range $i, $e := .L}}{{if $i}}{{continue}}{{end}}<li>{{$e}}</li>{{end}}</ul>`,
	`{{define "brk"}}{{range .L}}{{break}}{{end}}{{end}}{{define "callsbrk"}}<p>{{template "brk" .}}</p>{{end}}ok`,
	`{{define "brk"}}{{range .L}}{{break}}{{end}}{{end}}<b>{{.A}}</b>`,
	`<a href="{{range .L}}{{break}}{{end}}">`,
	// else-if / else-with chains, chained declarations and assignments, comments, trim markers
	`{{if .F}}<b>f</b>{{else if .T}}<b>{{.A}}</b>{{else}}<b>n</b>{{end}}`,
	`{{with .N}}n{{else with .A}}<i>{{.}}</i>{{else}}none{{end}}`,
	`{{if .T}}<a href="{{else if .F}}<a href="{{else}}<a href="{{end}}{{.S}}">x</a>`,
	`{{if .T}}<a href="{{else if .F}}<a title="{{else}}<b>{{end}}{{.A}}`,
	`{{$x := .A}}{{$y := .B}}{{$x = $y}}<i title="{{$x}}">{{$y}}</i>`,
	`{{range $i, $e := .L}}{{$i}}={{$e}};{{end}}`,
	`{{with $v := .A}}{{$v}}{{end}}`,
	`{{/* a comment */}}<b>{{/* another */}}{{.A}}</b>{{- /* trimmed */ -}}`,
	`<p> {{- .A -}} </p>`,
	`{{(.A)}}{{(print .A .B) | html}}{{print (len .L)}}`,
	`{{.A.B.C}}{{index .L 0}}{{printf "%s" .A}}`,
	`{{if and .T (not .F)}}{{.A}}{{end}}{{if or .F .N}}x{{end}}`,
	`{{nil}}`,
	`{{.A | printf "%q" | html}}`,
	// recursion: direct, mutual, context-changing at every level
	`{{define "r"}}{{if .F}}{{template "r" .}}{{end}}{{.A}}{{end}}{{template "r" .}}`,
	`{{define "p"}}{{if .F}}{{template "q" .}}{{end}}p{{end}}{{define "q"}}{{if .F}}{{template "p" .}}{{end}}q{{end}}{{template "p" .}}`,
	`{{define "r"}}<b {{template "r" .}}{{end}}{{template "r" .}}`,
	`{{define "r"}}x="{{if .F}}{{template "r" .}}{{end}}{{end}}<a {{template "r" .}}">`,
	`{{define "p"}}<a {{if .F}}{{template "q" .}}{{end}}{{end}}{{define "q"}}href="{{if .F}}{{template "p" .}}{{end}}{{end}}{{template "p" .}}`,
	`{{define "r"}}{{if .F}}<i>{{template "r" .}}</i>{{end}}{{end}}{{template "r" .}}`,
	`{{define "r"}}{{template "r" .}}{{end}}{{template "r" .}}`,
	`{{define "p"}}{{template "q" .}}{{end}}{{define "q"}}<b>{{template "p" .}}{{end}}{{if .F}}{{template "p" .}}{{end}}`,
	`{{define "r"}}<script>{{if .F}}{{template "r" .}}{{end}}{{end}}{{template "r" .}}</script>`,
	`{{define "r"}}{{if .F}}<!--{{template "r" .}}{{end}}-->{{end}}{{template "r" .}}`,
	// callees that fail, are empty, are undefined; in text and in attribute contexts (D8)
	`{{define "bad"}}<a href="{{.U}}{{end}}{{define "callsbad"}}{{template "bad" .}}{{end}}ok`,
	`{{define "bad"}}<a href="{{.U}}{{end}}{{define "c2"}}<b title="{{template "bad" .}}">{{end}}ok`,
	`{{define "bad"}}<a href="{{.U}}{{end}}{{define "c3"}}<b {{template "bad" .}}>{{end}}{{define "c4"}}{{template "c3" .}}{{end}}ok`,
	`{{define "bad"}}<script>{{.A}}</script>{{end}}{{define "c2"}}<p>{{template "bad" .}}</p>{{end}}{{define "c5"}}<a href="/x?{{template "bad" .}}">{{end}}ok`,
	`{{define "bad"}}{{template "nosuch" .}}{{end}}{{define "c2"}}<i>{{template "bad" .}}</i>{{end}}{{define "c6"}}<i id="{{template "bad" .}}">{{end}}ok`,
	`{{define "bad"}}<b{{end}}{{define "worse"}}<a href='{{template "bad" .}}{{end}}{{define "c7"}}{{template "worse" .}}{{template "bad" .}}{{end}}`,
	`{{define "empty"}}{{end}}{{define "ws"}}   {{end}}<p title="{{template "empty"}}">{{template "ws"}}{{template "empty"}}</p>`,
	`<p>{{template "nosuch"}}</p>`,
	`<p title="{{template "nosuch" .}}">`,
	`{{template "main" .}}`,
	`{{define "main"}}redefined {{.A}}{{end}}`,
	`{{block "blk" .}}<b>{{.A}}</b>{{end}}{{template "blk" .B}}`,
	`{{define "t"}}{{.}}{{end}}<a href="{{template "t" .S}}" title="{{template "t" .A}}">{{template "t" .B}}</a><script>{{template "t" .J}}</script>`,
	// malformed HTML around actions
	`<a href={{.U}} {{.A}}>`, `<{{.A}} x>`, `</{{.A}}>`, `<a b=c"{{.A}}">`, `<a '{{.A}}'>`, `<a b='{{.A}}>`, `<!-- {{.A}} --`, `<!--{{.A}}--><!-->{{.B}}`,
	`<script>var x = "{{.A}}";</script>`, `<script>/* {{.A}} */</script>`, `<style>a{b:{{.A}}}</style>`, `<textarea>{{.A}}</textarea></textarea>`, `<title>{{.A}}</TITLE >x`,
	`<script>` + "`" + `${ {{.A}} }` + "`" + `</script>`, `<script>` + "`" + `{{.A}}`, `<a href="&#{{.A}};">`, `<a href="&{{.A}}">`, `<a href="x&amp{{.A}}">`,
	`<img srcset="{{.S}} 2x, {{.A}}">`, `<svg><a xlink:href="{{.S}}">`, `<a href="{{.S}}{{.A}}">`, `<a href="{{.S}}#{{.A}}?{{.B}}">`, `<meta http-equiv="refresh" content="{{.A}}">`,
	`<a{{.A}}>`, `<a {{.A}}{{.B}}>`, `<a x{{.A}}=y>`, `<a x={{.A}}{{.B}} >`, `<a x ={{.A}}>`, `<a x= {{.A}}>`, `<a x=y{{.A}}z>`, "<a\tx\n=\f'{{.A}}'\r>",
	`{{.A}}<`, `{{.A}}</`, `<{{.A}}`, `<!{{.A}}`, `<!-{{.A}}`, `<!DOCTYPE {{.A}}>`, `<?xml {{.A}}?>`, `<![CDATA[{{.A}}]]>`, "\x00{{.A}}\xff<\x80{{.B}}>",
}

// texts that end where a scanner looks ahead: every one of them must be handled at the end of a text node
var c08Tails = []string{"<", "</", "<a-", "<a:", "<ab-", "<a-b-", "</a-", "<!", "<!-", "<!--", "<!---", "<!-->", "</script", "</scrip", "</SCRIPT", "</style", "</styl", "</title", "</titl",
	"</textarea", "</textare", "x</script", "</script</script", "</scriptx</script", "</script ", "</title/", "&", "&#", "&#x", "&#60", "&lt", "&amp", " ", "=", " =", "= ", "'", "\"", "a", "a=", "a ", "a='", "-->", "--", "-"}

// names worth executing / looking up / overwriting
var c08Names = []string{"main", "bad", "worse", "callsbad", "c2", "c3", "c4", "c5", "c6", "c7", "brk", "callsbrk", "r", "p", "q", "t", "blk", "empty", "ws", "nosuch", "h", "X", "Y", ""}

// definedNames lists the templates a text defines (besides the receiver "main").
func definedNames(text string) []string {
	trees, err := parse.Parse("main", text, "", "", parseFuncs)
	if err != nil {
		return nil
	}
	var l []string
	for n := range trees {
		l = append(l, n)
	}
	sort.Strings(l)
	return l
}

// firstOutcome executes `name` first on a fresh set holding text; used to find the names whose
// first execution returns an error.
func firstOutcome(text, name string) string {
	res := "?"
	watchdog(func() {
		f, run := execHistory([]histOp{{kind: "N", name: "main"}, {kind: "P", h: 0, text: text}, {kind: "Y", h: 0, name: name}})
		_ = f
		res = run.results[len(run.results)-1]
	})
	return res
}

type defInfo struct {
	text    string
	names   []string
	failing []string // names whose first execution returns an error (escape:*, incomplete, undefined)
}

func c08Defs() []defInfo {
	var out []defInfo
	seen := map[string]bool{}
	for _, d := range append(append([]string{}, c08Pool...), defPool...) {
		if seen[d] {
			continue
		}
		seen[d] = true
		di := defInfo{text: d, names: definedNames(d)}
		for _, n := range di.names {
			if r := firstOutcome(d, n); strings.HasPrefix(r, "escape:") || r == "incomplete" {
				di.failing = append(di.failing, n)
			}
		}
		out = append(out, di)
	}
	return out
}

// afterError builds a history: parse, make one call fail, then n further calls with a high weight on
// calls that reach what failed; every handle is executed at the end.
func afterError(d defInfo, n int) []histOp {
	ops := []histOp{{kind: "N", name: pick([]string{"main", "main", "main", "bad", ""})}}
	if rng.Intn(6) == 0 {
		ops = append(ops, histOp{kind: "Z", h: 0})
	}
	ops = append(ops, histOp{kind: "P", h: 0, text: d.text})
	nh := 1
	names := append([]string{"main", "nosuch"}, d.names...)
	fail := "nosuch"
	if len(d.failing) > 0 {
		fail = pick(d.failing)
	}
	switch rng.Intn(4) {
	case 0:
		ops = append(ops, histOp{kind: "X", h: 0})
	default:
		ops = append(ops, histOp{kind: "Y", h: 0, name: fail})
	}
	for i := 0; i < n; i++ {
		h := rng.Intn(nh)
		switch r := rng.Intn(100); {
		case r < 40:
			ops = append(ops, histOp{kind: "Y", h: h, name: pick(names)})
		case r < 52:
			ops = append(ops, histOp{kind: "X", h: h})
		case r < 60:
			ops = append(ops, histOp{kind: "L", h: h, name: pick(names)})
			nh++
		case r < 70:
			// New on an existing (possibly executed, possibly failed) name overwrites it in place
			ops = append(ops, histOp{kind: "S", h: h, name: pick(names)})
			nh++
		case r < 78:
			ops = append(ops, histOp{kind: "C", h: h})
			nh++
		case r < 88:
			ops = append(ops, histOp{kind: "P", h: h, text: pick(c08Pool)})
		case r < 92:
			ops = append(ops, histOp{kind: "I", h: h})
		case r < 95:
			ops = append(ops, histOp{kind: "Z", h: h})
		default:
			ops = append(ops, histOp{kind: "N", name: pick(c08Names)})
			nh++
		}
	}
	for h := 0; h < nh && h < 6; h++ {
		ops = append(ops, histOp{kind: "X", h: h})
	}
	return ops
}

func c08Data() string {
	return "map:A=str:" + hx(`x<y&"'`) + ",B=str:62,U=str:" + hx("javascript:alert(1)") + ",S=str:" + hx("/safe/p?q=1") +
		",T=true,F=false,N=nil,L=list:str:6c31|str:" + hx("<l2>") + ",J=safe:script:" + hx("alert(1)")
}

func runC08(c *caseWriter) (string, bool, map[string]int) {
	quick := tier != "thorough"
	emitH := func(ops []histOp) {
		if c08Timeouts < c08MaxTimeouts {
			emit(c, "hist08", encodeOps(ops))
		}
	}
	N := func(n string) histOp { return histOp{kind: "N", name: n} }
	P := func(h int, t string) histOp { return histOp{kind: "P", h: h, text: t} }
	X := func(h int) histOp { return histOp{kind: "X", h: h} }
	Y := func(h int, n string) histOp { return histOp{kind: "Y", h: h, name: n} }

	// (0) the recorded witnesses and directed-search seeds first
	emitH([]histOp{N("main"), P(0, `{{range .L}}{{break}}{{end}}`), X(0)})
	emitH([]histOp{N("main"), P(0, `{{define "bad"}}<a href="{{.U}}{{end}}{{define "c2"}}<b title="{{template "bad" .}}">{{end}}ok`), Y(0, "bad"), Y(0, "c2")})
	emitH([]histOp{N("main"), P(0, `{{define "bad"}}<a href="{{.U}}{{end}}{{define "callsbad"}}{{template "bad" .}}{{end}}ok`), Y(0, "bad"), Y(0, "callsbad")})
	emitH([]histOp{N("main"), P(0, `{{define "rec"}}r{{end}}<p>{{template "rec" .}}</p>`), {kind: "S", h: 0, name: "rec"}, {kind: "C", h: 1}, Y(2, "main")})
	// a first execution memoizes main and its helpers; then bystander templates are redefined through t.New one by one
	// and a memoized helper is executed for the first time after each: the analysis is answered from the memo and goes
	// straight to commit, which walks every memoized name (whatever the engine remembers about the set's members is
	// used there; which member it remembers may depend on map order, hence the repetitions)
	for rep := 0; rep < 6; rep++ {
		text := fmt.Sprintf(`{{define "h1"}}<b>{{.A}}</b>{{end}}{{define "h2"}}<i>{{.B}}</i>{{end}}{{define "h3"}}<u>%d{{.A}}</u>{{end}}`+
			`{{define "v1"}}v{{end}}{{define "v2"}}w{{end}}{{define "v3"}}x{{end}}{{template "h1" .}}{{template "h2" .}}{{template "h3" .}}`, rep)
		emitH([]histOp{N("main"), P(0, text), Y(0, "main"), {kind: "S", h: 0, name: "v1"}, Y(0, "h1"), {kind: "S", h: 0, name: "v2"}, Y(0, "h2"),
			{kind: "S", h: 0, name: "v3"}, Y(0, "h3"), X(0)})
	}
	for _, s := range extraSeeds {
		for _, v := range seedVariants(s) {
			emitH([]histOp{N("main"), P(0, v), X(0), X(0)})
			emit(c, "exec08", v, "", c08Data())
		}
	}

	// (1) text level: reachable contexts; totality + progress + invariant on the real functions
	depth, limit := 2, 260
	if !quick {
		depth, limit = 3, 1200
	}
	ctxs := reachableContexts(depth, limit)
	textOK := func() bool { return c08Timeouts < c08MaxTimeouts }
	for idx, v := range ctxs {
		k := ctxIn(v)
		emit(c, "wf08", k)
		l := 1
		if !quick {
			if idx < 300 {
				l = 2
			}
			if idx < 20 {
				l = 3
			}
		} else if idx < 12 {
			l = 2
		}
		product(tmplAlphabet, l, func(s string) {
			if textOK() {
				emit(c, "cat08", k, s)
				emit(c, "esc08", k, s, "0")
			}
		})
		for _, s := range c08Tails {
			if textOK() {
				emit(c, "cat08", k, s)
				emit(c, "esc08", k, s, "0")
				emit(c, "cat08", k, "x "+s)
				emit(c, "esc08", k, ">"+s, "0")
			}
		}
		for _, s := range tmplSeeds {
			if textOK() {
				emit(c, "cat08", k, s+"</script></title ></TEXTAREA\t>")
				emit(c, "esc08", k, s+"<!-- c --></style><a href=x>", b01(idx%5 == 0))
			}
		}
	}
	frag := []string{"<a ", "<b>", "</b>", "<script>", "</script>", "</SCRIPT ", "</scriptx", "</script", "<style>", "</style>", "<title>", "</title>", "<textarea>", "</textarea/", "<!--", "-->", "--", "<!-", "<!",
		"href=", "src=", "title=", "\"", "'", " ", ">", "/>", "/", "x", "&amp;", "&lt", "&#", "&#x3c;", "&lt;/script&gt;", "<!DOCTYPE html>", "<", "</", "<é", "=", "\n", "`", "${", "}", "\x00", "\xff", "a=b", "a-b:c"}
	nt := 1500
	if !quick {
		nt = 40000
	}
	for i := 0; i < nt && textOK(); i++ {
		s := randFrom(frag, 12)
		v := ctxs[rng.Intn(len(ctxs))]
		if rng.Intn(3) == 0 {
			v = vctx{}
		}
		emit(c, "cat08", ctxIn(v), s)
		emit(c, "esc08", ctxIn(v), s, b01(rng.Intn(6) == 0))
	}
	// the shared correspondence streams; skipped once the real code has been seen to hang or panic at the
	// text level (those generators run without a watchdog)
	if c08Timeouts == 0 && c08Panics == 0 {
		genTmplText(c, quick)
	}

	// (2) API histories
	defs := c08Defs()
	for _, d := range defs {
		names := append([]string{"main", "nosuch"}, d.names...)
		emitH([]histOp{N("main"), P(0, d.text), X(0), X(0)})
		for _, n1 := range names {
			emitH([]histOp{N("main"), P(0, d.text), Y(0, n1), X(0), Y(0, n1)})
			if len(names) <= 6 || !quick {
				for _, n2 := range names {
					if n1 != n2 {
						// a second template after the first one ran (and possibly failed), then everything again
						emitH([]histOp{N("main"), P(0, d.text), Y(0, n1), Y(0, n2), X(0), Y(0, n1), Y(0, n2)})
					}
				}
			}
		}
		for _, f := range d.failing {
			// after a failure: look the failed template up and execute through the looked-up handle, clone,
			// overwrite it with New, re-parse
			emitH([]histOp{N("main"), P(0, d.text), Y(0, f), {kind: "L", h: 0, name: f}, X(1), {kind: "C", h: 0}, {kind: "C", h: 1}, X(0)})
			emitH([]histOp{N("main"), P(0, d.text), Y(0, f), {kind: "S", h: 0, name: f}, X(1), Y(0, f), P(1, "again {{.A}}"), X(1), X(0)})
			for _, n := range d.names {
				emitH([]histOp{N("main"), P(0, d.text), {kind: "L", h: 0, name: n}, Y(0, f), X(1), Y(1, n), {kind: "I", h: 1}})
			}
		}
		for _, n1 := range names {
			// Clone / New / Lookup on a set in which another member has been executed (derived templates exist)
			emitH([]histOp{N("main"), P(0, d.text), Y(0, n1), {kind: "C", h: 0}, {kind: "L", h: 0, name: n1}, {kind: "C", h: 1}, {kind: "S", h: 0, name: n1}, X(0), {kind: "I", h: 0}})
		}
		for _, n1 := range d.names {
			// replace a defined template by New, clone through the new handle, execute everything in the clone
			h := []histOp{N("main"), P(0, d.text), {kind: "S", h: 0, name: n1}, {kind: "C", h: 1}, {kind: "C", h: 0}}
			for _, n2 := range names {
				h = append(h, Y(2, n2))
			}
			emitH(append(h, X(2), X(3), X(1), X(0)))
		}
		emitH([]histOp{N("main"), P(0, d.text), {kind: "C", h: 0}, X(1), X(0), P(0, "late"), {kind: "C", h: 0}, X(1)})
		emitH([]histOp{N("main"), {kind: "Z", h: 0}, P(0, d.text), X(0), X(0)})
	}
	// no Parse at all, empty names, handles of overwritten templates
	emitH([]histOp{N(""), X(0), Y(0, ""), {kind: "C", h: 0}, {kind: "L", h: 0, name: ""}, {kind: "I", h: 0}})
	emitH([]histOp{N("main"), {kind: "S", h: 0, name: "x"}, X(1), Y(0, "x"), {kind: "S", h: 0, name: "x"}, X(1), X(2), {kind: "S", h: 1, name: "main"}, X(0)})
	emitH([]histOp{N("main"), P(0, "<b>{{.A}}</b>"), X(0), {kind: "S", h: 0, name: "main"}, X(0), X(1), Y(1, "main"), P(1, "x"), P(0, "y"), X(0), X(1)})
	nh := 1500
	if !quick {
		nh = 120000
	}
	for i := 0; i < nh; i++ {
		d := defs[rng.Intn(len(defs))]
		if rng.Intn(3) != 0 {
			// prefer sets in which something fails
			for tries := 0; tries < 4 && len(d.failing) == 0; tries++ {
				d = defs[rng.Intn(len(defs))]
			}
		}
		emitH(afterError(d, 2+rng.Intn(8)))
	}
	if c08Timeouts == 0 {
		genHistories(c, quick)
	}

	// (3) executions of malformed HTML with an action at every position
	data := c08Data()
	actions := []string{"{{.A}}", "{{.S}}", "{{if .T}}{{.A}}{{end}}", "{{range .L}}{{.}}{{end}}", "{{template \"t\" .A}}{{define \"t\"}}{{.}}{{end}}"}
	execAll := func(s string, acts []string) {
		for i := 0; i <= len(s); i++ {
			for _, a := range acts {
				if c08Timeouts < c08MaxTimeouts {
					emit(c, "exec08", s[:i]+a+s[i:], "", data)
				}
			}
		}
	}
	for i, s := range tmplSeeds {
		if quick {
			execAll(s, actions[:1+i%2])
		} else {
			execAll(s, actions)
		}
	}
	ne := 120
	if !quick {
		ne = 6000
	}
	for i := 0; i < ne; i++ {
		s := randFrom(frag, 8)
		execAll(s, []string{actions[rng.Intn(len(actions))]})
	}
	for _, d := range c08Pool {
		if c08Timeouts < c08MaxTimeouts {
			emit(c, "exec08", d, "", data)
			for _, n := range definedNames(d) {
				emit(c, "exec08", d, n, data)
			}
		}
	}
	return fmt.Sprintf("text level: %d contexts reached by the real contextAfterText (seed texts + %d alphabet steps) x all texts of length <= 1..3 over a 29-symbol alphabet + seed texts with closing tags + grammar-random fragment texts, through contextAfterText and escapeText under recover and a 5 s watchdog (totality, progress, n <= len, invariant), plus the shared correspondence streams; API: %d definition sets (every node kind of the installed parser: break, continue, else-if, else-with, declarations, assignments, comments, trim markers, blocks, direct/mutual/context-changing recursion, failing/empty/undefined callees in text and attribute contexts, malformed HTML) x every pair of their template names executed in sequence, fixed after-failure histories (lookup, clone, New-overwrite, re-parse, execute every handle) and random histories that first make a call fail and then call what reaches it, every history under recover and the watchdog, replayed on the engine model; executions of seed and random malformed HTML with an action inserted at every byte position; non-trivial = the history executes a template / the step leaves the state", len(ctxs), depth, len(defs)), false,
		map[string]int{"watchdog_timeouts": c08Timeouts, "text_level_panics": c08Panics, "definition_sets": len(defs)}
}
