//go:build tmpl || allprops

package main

import (
	"fmt"
	"sort"
	"strings"

	"github.com/google/safehtml/template"
)

// Text-level template machine: correspondence streams shared by C01-C04, C08, C14.
// Wire form of a context: see ocaml/drv_tmpl.ml.

type vctx = template.VerifContext

func listWire(l []string) string {
	if len(l) == 0 {
		return "[]"
	}
	var p []string
	for _, s := range l {
		p = append(p, hx(s))
	}
	return strings.Join(p, ",")
}

func ctxWire(v vctx) []string {
	amb := "0"
	if v.AttrAmbiguous {
		amb = "1"
	}
	code := "0"
	if v.Err {
		code = fmt.Sprint(v.ErrCode)
	}
	return []string{fmt.Sprint(v.State), fmt.Sprint(v.Delim), hx(v.ElemName), listWire(v.ElemNames), hx(v.AttrName), hx(v.AttrValue), amb,
		listWire(v.AttrNames), code, hx(v.ScriptType), hx(v.LinkRel)}
}

func ctxKey(v vctx) string { return strings.Join(ctxWire(v), "|") }

// contexts are passed between generator and stream executors through a side table,
// the stream inputs carry the key.
var ctxTable = map[string]vctx{}

func ctxIn(v vctx) string {
	k := ctxKey(v)
	ctxTable[k] = v
	return k
}

func unwire(k string) vctx {
	if v, ok := ctxTable[k]; ok {
		return v
	}
	// replay: rebuild from the wire form
	f := strings.Split(k, "|")
	atoi := func(s string) int { var n int; fmt.Sscan(s, &n); return n }
	unlist := func(s string) []string {
		if s == "[]" {
			return nil
		}
		var l []string
		for _, x := range strings.Split(s, ",") {
			l = append(l, unhx(x))
		}
		return l
	}
	v := vctx{State: atoi(f[0]), Delim: atoi(f[1]), ElemName: unhx(f[2]), ElemNames: unlist(f[3]), AttrName: unhx(f[4]), AttrValue: unhx(f[5]),
		AttrAmbiguous: f[6] == "1", AttrNames: unlist(f[7]), ScriptType: unhx(f[9]), LinkRel: unhx(f[10])}
	if f[8] != "0" {
		v.Err, v.ErrCode = true, atoi(f[8])
	}
	return v
}

func b01(x bool) string {
	if x {
		return "1"
	}
	return "0"
}

func init() {
	reg("ctx_after_text", 2, func(c *caseWriter, in []string) {
		v := unwire(in[0])
		outcome := "ok"
		var v1 vctx
		var n int
		func() {
			defer func() {
				if r := recover(); r != nil {
					outcome = "panic"
				}
			}()
			v1, n = template.VerifContextAfterText(v, []byte(in[1]))
		}()
		f := append([]string{hx(in[0]), hx(in[1])}, ctxWire(v)...)
		f = append(f, outcome)
		f = append(f, ctxWire(v1)...)
		f = append(f, fmt.Sprint(n))
		c.Case("ctx_after_text", f...)
	})
	reg("escape_text", 3, func(c *caseWriter, in []string) {
		v := unwire(in[0])
		outcome := "ok"
		var v1 vctx
		var edited bool
		var out []byte
		func() {
			defer func() {
				if r := recover(); r != nil {
					outcome = "panic"
				}
			}()
			v1, edited, out = template.VerifEscapeText(v, []byte(in[1]), in[2] == "1")
		}()
		f := append([]string{hx(in[0]), hx(in[1]), hx(in[2])}, ctxWire(v)...)
		f = append(f, outcome)
		f = append(f, ctxWire(v1)...)
		f = append(f, b01(edited), hx(string(out)))
		c.Case("escape_text", f...)
	})
	reg("sanitizer_for", 1, func(c *caseWriter, in []string) {
		v := unwire(in[0])
		names, err := template.VerifSanitizerForContext(v)
		f := append([]string{hx(in[0])}, ctxWire(v)...)
		if err != nil {
			f = append(f, "err", "[]")
		} else {
			f = append(f, "ok", listWire(names))
		}
		c.Case("sanitizer_for", f...)
	})
	reg("sc_attr", 3, func(c *caseWriter, in []string) {
		sc, err := template.VerifSanitizationContextForAttrVal(in[0], in[1], in[2])
		if err != nil {
			sc = 0
		}
		c.Case("sc_attr", hx(in[0]), hx(in[1]), hx(in[2]), fmt.Sprint(sc))
	})
	reg("sc_content", 1, func(c *caseWriter, in []string) {
		sc, err := template.VerifSanitizationContextForElementContent(in[0])
		if err != nil {
			sc = 0
		}
		c.Case("sc_content", hx(in[0]), fmt.Sprint(sc))
	})
	reg("url_prefix", 2, func(c *caseWriter, in []string) {
		var r string
		switch in[0] {
		case "url":
			r = b01(template.VerifValidateURLPrefix(in[1]) == nil)
		case "tru":
			r = b01(template.VerifValidateTrustedResourceURLPrefix(in[1]) == nil)
		case "charref":
			r = b01(template.VerifValidateDoesNotEndsWithCharRefPrefix(in[1]) == nil)
		default:
			d, err := template.VerifDecodeURLPrefix(in[1])
			if err != nil {
				r = "0"
			} else {
				r = "1:" + hx(d)
			}
		}
		c.Case("url_prefix", hx(in[0]), hx(in[1]), r)
	})
	reg("mangle", 2, func(c *caseWriter, in []string) {
		v := unwire(in[0])
		f := append([]string{hx(in[0]), hx(in[1])}, ctxWire(v)...)
		f = append(f, hx(template.VerifMangle(v, in[1])))
		c.Case("mangle", f...)
	})
	reg("join", 2, func(c *caseWriter, in []string) {
		a, b := unwire(in[0]), unwire(in[1])
		f := append([]string{hx(in[0]), hx(in[1])}, ctxWire(a)...)
		f = append(f, ctxWire(b)...)
		f = append(f, ctxWire(template.VerifJoin(a, b))...)
		c.Case("join", f...)
	})
	reg("js_balanced", 1, func(c *caseWriter, in []string) {
		c.Case("js_balanced", hx(in[0]), b01(template.VerifIsJsTemplateBalanced([]byte(in[0]))))
	})
}

// the distinguishing alphabet of the text-level machine
var tmplAlphabet = []string{"<", ">", "/", "!", "-", "=", "\"", "'", " ", "\t", "\n", "\f", "\r", "&", ";", "#", "a", "s", "S", "c", ":", "0", "x", "\x00", "\x80", "`", "$", "{", "}", "\v", "\u00a0", "\u0085", "_"}

// seed texts that reach the interesting contexts
var tmplSeeds = []string{
	"", "<a", "<a ", "<a href", "<a href ", "<a href=", "<a href =", `<a href="`, `<a href='`, "<a href=x", `<a href="/foo`, `<a href="/foo?x=`, `<a href="&`, `<a href="x&amp`,
	"<script", "<script>", "<script>var x=`", "<style>", "<title>", "<textarea>", "<!--", "<!-- x", `<link rel="stylesheet" href="`, `<link rel="alternate" href="`,
	`<link rel=" Alternate  stylesheet " href="`, `<script type="text/javascript" `, `<script type="text/template" src="`, "<img src=", `<img srcset="`, `<div title="`, `<div style="`,
	`<div style="color:&`, `<a onclick="`, `<br>`, `<br `, `<input value='`, `<svg><a xlink:href="`, `<a target="`, `<a target="_bl`, `<b id="`, `<object>`, `<object data="`, "</a", "</a ",
	`<a data-x="`, `<iframe srcdoc="`, `<form action="`, `<button formaction='`, `<a href=/foo`, "<a hreF=\"", "<A HREF=\"", "<a\thref\n=\f'", "<a hr\x80f=\"", "<é", "<a-b:c ", "<a_b ",
}

func step(v vctx, s string) (v1 vctx, ok bool) {
	defer func() {
		if r := recover(); r != nil {
			ok = false
		}
	}()
	// run contextAfterText to the end of s, as escapeText does
	b := []byte(s)
	for len(b) > 0 {
		c1, n := template.VerifContextAfterText(v, b)
		if n == 0 && c1.State == v.State {
			return v, false
		}
		v, b = c1, b[n:]
	}
	return v, true
}

// reachableContexts explores contexts by running seed texts, then `depth` more alphabet symbols.
func reachableContexts(depth, limit int) []vctx {
	seen := map[string]bool{}
	var out []vctx
	add := func(v vctx) bool {
		k := ctxKey(v)
		if seen[k] || len(out) >= limit {
			return false
		}
		seen[k] = true
		out = append(out, v)
		return true
	}
	var frontier []vctx
	for _, s := range tmplSeeds {
		if v, ok := step(vctx{}, s); ok && add(v) {
			frontier = append(frontier, v)
		}
	}
	// conditional-name contexts, as produced by join
	for _, v := range []vctx{
		{State: 7, Delim: 1, ElemName: "a", ElemNames: []string{"a", "area"}, AttrName: "href"},
		{State: 7, Delim: 1, ElemName: "a", ElemNames: []string{"a", "script"}, AttrName: "href"},
		{State: 7, Delim: 2, ElemName: "img", AttrName: "src", AttrNames: []string{"src", "alt"}},
		{State: 7, Delim: 1, ElemName: "a", AttrName: "href", AttrValue: "/x", AttrAmbiguous: true},
		{State: 0, ElemName: "b", ElemNames: []string{"b", "i"}},
		{State: 0, ElemName: "b", ElemNames: []string{"b", "script"}},
		{State: 0, ElemName: "b", ElemNames: []string{"b", ""}},
		{State: 1, ElemName: "script", ScriptType: "text/javascript"},
		{State: 7, Delim: 1, ElemName: "a", AttrName: "target", AttrValue: "_b"},
		{State: 7, Delim: 1, ElemName: "link", AttrName: "href", LinkRel: " alternate stylesheet "},
		{State: 7, Delim: 1, ElemName: "link", AttrName: "href", LinkRel: " stylesheet "},
		{State: 8, Err: true, ErrCode: 2},
	} {
		if add(v) {
			frontier = append(frontier, v)
		}
	}
	for d := 0; d < depth; d++ {
		var next []vctx
		for _, v := range frontier {
			for _, a := range tmplAlphabet {
				if v1, ok := step(v, a); ok && add(v1) {
					next = append(next, v1)
				}
			}
		}
		frontier = next
	}
	sort.SliceStable(out, func(i, j int) bool { return false })
	return out
}

// genTmplText emits the text-level correspondence cases.
func genTmplText(c *caseWriter, quick bool) {
	ctxs := reachableContexts(2, 260)
	// extra seeds (directed search): run them from every context
	for _, s := range extraSeeds {
		for _, v := range ctxs {
			emit(c, "ctx_after_text", ctxIn(v), s)
			emit(c, "escape_text", ctxIn(v), s, "0")
		}
		emit(c, "url_prefix", "url", s)
		emit(c, "url_prefix", "tru", s)
		emit(c, "url_prefix", "decode", s)
		emit(c, "js_balanced", s)
	}
	maxLen := 2
	for idx, v := range ctxs {
		k := ctxIn(v)
		emit(c, "sanitizer_for", k)
		emit(c, "mangle", k, "T")
		l := maxLen
		if quick && idx >= 40 {
			l = 1
		}
		product(tmplAlphabet, l, func(s string) {
			emit(c, "ctx_after_text", k, s)
			emit(c, "escape_text", k, s, "0")
		})
		// punctuation runs around comment ends and tag ends (a scanner that looks one or two bytes past a
		// match shows at the END of a text node): every string of <= 4 symbols over - ! > and of <= 3 over < / > s
		product([]string{"-", "!", ">"}, 4, func(s string) {
			emit(c, "ctx_after_text", k, s)
			emit(c, "escape_text", k, "x"+s, "0")
		})
		product([]string{"<", "/", ">", "s"}, 3, func(s string) {
			emit(c, "ctx_after_text", k, s)
		})
		if idx < 60 || !quick {
			// every single byte, alone and between two letters
			for b := 0; b < 256; b++ {
				x := string([]byte{byte(b)})
				emit(c, "ctx_after_text", k, x)
				emit(c, "ctx_after_text", k, "a"+x+"b")
				emit(c, "escape_text", k, "a"+x+"b", "0")
			}
		}
		for _, s := range tmplSeeds {
			emit(c, "ctx_after_text", k, s)
			emit(c, "escape_text", k, s, "0")
			emit(c, "escape_text", k, s+`<a onclick="javascript:x">`, "1")
		}
	}
	// join of contexts that differ in exactly one field (both orders)
	for idx, a := range ctxs {
		if idx >= 90 && quick {
			break
		}
		variants := []vctx{a, a, a, a, a, a, a}
		variants[0].LinkRel = a.LinkRel + "x "
		variants[1].ScriptType = a.ScriptType + "x"
		variants[2].Delim = (a.Delim + 1) % 4
		variants[3].AttrName = a.AttrName + "x"
		variants[4].ElemName = a.ElemName + "x"
		variants[5].AttrValue = a.AttrValue + "x"
		variants[6].State = (a.State + 1) % 8
		for _, b := range variants {
			emit(c, "join", ctxIn(a), ctxIn(b))
			emit(c, "join", ctxIn(b), ctxIn(a))
		}
	}
	for i, a := range ctxs {
		for j, b := range ctxs {
			if (i+j)%7 == 0 || i < 12 && j < 12 {
				emit(c, "join", ctxIn(a), ctxIn(b))
			}
		}
	}
	// random grammar texts from the start context and from random contexts
	frag := []string{"<a ", "<b>", "</b>", "<script>", "</script>", "</SCRIPT ", "</scriptx", "<style>", "</style>", "<title>", "</title>", "<textarea>", "</textarea>", "<!--", "-->", "--",
		"href=", "src=", "title=", "\"", "'", " ", ">", "/>", "x", "&amp;", "&lt", "&#", "<!DOCTYPE html>", "<!doctype", "<", "</", "<é", "=", "\n", "`", "${", "}", "javascript:", "onclick=", "<br>", "<img ", "\x00", "\xff", "a=b"}
	n := 1500
	if !quick {
		n = 40000
	}
	for i := 0; i < n; i++ {
		s := randFrom(frag, 10)
		v := vctx{}
		if rng.Intn(3) == 0 {
			v = ctxs[rng.Intn(len(ctxs))]
		}
		emit(c, "ctx_after_text", ctxIn(v), s)
		emit(c, "escape_text", ctxIn(v), s, b01(rng.Intn(5) == 0))
		if rng.Intn(4) == 0 {
			emit(c, "js_balanced", s)
		}
	}
	product([]string{"`", "${", "}", "a", "$", "{"}, 5, func(s string) { emit(c, "js_balanced", s) })
}
