//go:build c02 || allprops

package main

import (
	"fmt"
	"sort"
	"strings"

	"github.com/google/safehtml/template"
)

// C02: untrusted strings never reach code contexts; URLs never become javascript:.
//
// Streams
//   codectx <template text> <data wire> <markers, comma separated>
//           -> <outcome> <bytes written> <marker spans off:len,... found here>
//           every untrusted leaf of the data contains one of the alphanumeric markers; the driver
//           tokenizes the bytes written with the HTML tokenizer specification and checks that no marker
//           byte sits in a code position (i) nor in the origin-determining start of a code-loading URL (ii)
//   jsurl   <template text> <data wire> -> <outcome> <bytes written>
//           the driver checks every URL-valued attribute of the output: no javascript scheme (iii)
// Templates are parsed into a fresh set named "main" and executed as main.

func init() {
	props["C02"] = runC02
	reg("codectx", 3, func(c *caseWriter, in []string) {
		r := runTemplate(in[0], "", dataFromWire(in[1]), false)
		var spans []string
		if in[2] != "" {
			for _, m := range strings.Split(in[2], ",") {
				for off := 0; ; {
					i := strings.Index(r.out[off:], m)
					if i < 0 {
						break
					}
					spans = append(spans, fmt.Sprintf("%d:%d", off+i, len(m)))
					off += i + 1
				}
			}
		}
		sp := "-"
		if len(spans) > 0 {
			sp = strings.Join(spans, ",")
		}
		c.Case("codectx", hx(in[0]), hx(in[1]), hx(in[2]), r.outcome, hx(r.out), sp)
	})
	// codectx_hist <template text> <names: pre-executions and the judged member, separated by 0x01> <data wire> <markers>:
	// as codectx, on ONE set: the earlier members are executed first (their results are ignored), then the judged one
	reg("codectx_hist", 4, func(c *caseWriter, in []string) {
		r := runTemplate(in[0], in[1], dataFromWire(in[2]), false)
		var spans []string
		if in[3] != "" {
			for _, m := range strings.Split(in[3], ",") {
				for off := 0; ; {
					i := strings.Index(r.out[off:], m)
					if i < 0 {
						break
					}
					spans = append(spans, fmt.Sprintf("%d:%d", off+i, len(m)))
					off += i + 1
				}
			}
		}
		sp := "-"
		if len(spans) > 0 {
			sp = strings.Join(spans, ",")
		}
		c.Case("codectx_hist", hx(in[0]), hx(in[1]), hx(in[2]), hx(in[3]), r.outcome, hx(r.out), sp)
	})
	reg("jsurl", 2, func(c *caseWriter, in []string) {
		r := runTemplate(in[0], "", dataFromWire(in[1]), false)
		c.Case("jsurl", hx(in[0]), hx(in[1]), r.outcome, hx(r.out))
	})
}

func c02Str(s string) string { return "str:" + hx(s) }

func c02Map(kv ...string) string {
	var p []string
	for i := 0; i+1 < len(kv); i += 2 {
		p = append(p, kv[i]+"="+c02Str(kv[i+1]))
	}
	return "map:" + strings.Join(p, ",")
}

func c02List(l ...string) string {
	var p []string
	for _, s := range l {
		p = append(p, c02Str(s))
	}
	return "list:" + strings.Join(p, "|")
}

const (
	mkA = "zQ1x"
	mkB = "zQ2x"
	mkC = "zQ3x"
)

var c02Markers = mkA + "," + mkB + "," + mkC

var c02Void = map[string]bool{"area": true, "base": true, "br": true, "col": true, "embed": true, "hr": true, "img": true, "input": true,
	"link": true, "meta": true, "param": true, "source": true, "track": true, "wbr": true, "frame": true}

func c02Quote(q string) string { return map[string]string{"dq": `"`, "sq": `'`, "none": ""}[q] }

// <E [extra] A=Q value Q>[</E>]
func c02Tag(e, extra, a, q, value string) string {
	s := "<" + e
	if extra != "" {
		s += " " + extra
	}
	s += " " + a + "=" + c02Quote(q) + value + c02Quote(q) + ">"
	if !c02Void[strings.ToLower(e)] {
		s += "</" + e + ">"
	}
	return s
}

// every way of cutting s in two (including the empty pieces)
func c02Splits(s string) [][2]string {
	var out [][2]string
	for i := 0; i <= len(s); i++ {
		out = append(out, [2]string{s[:i], s[i:]})
	}
	return out
}

// all letter-case foldings of an ASCII word
func c02Foldings(w string) []string {
	out := []string{""}
	for _, ch := range w {
		var next []string
		lo, up := strings.ToLower(string(ch)), strings.ToUpper(string(ch))
		for _, p := range out {
			next = append(next, p+lo)
			if up != lo {
				next = append(next, p+up)
			}
		}
		out = next
	}
	return out
}

func runC02(c *caseWriter) (string, bool, map[string]int) {
	thorough := tier == "thorough"
	p := template.VerifPolicyTables()
	extra := map[string]int{}

	cc := func(text, wire string) { emit(c, "codectx", text, wire, c02Markers) }
	js := func(text, wire string) { emit(c, "jsurl", text, wire) }

	// ------------------------------------------------------------ (0) recorded findings: canonical witnesses
	js(`<a href="{{.A}}{{.B}}">x</a>`, c02Map("A", "java", "B", "script:alert(1)"))                                                                    // D2
	js(`<a href="{{.S}}://{{.H}}/x">x</a>`, c02Map("S", "javascript", "H", "%0aalert(1)"))                                                             // D2
	cc(`<link rel="alternate stylesheet" href="{{.}}">`, c02Str("//"+mkA+"/x.css"))                                                                    // D3
	js(`{{define "h"}}{{.}}{{end}}<a href="/foo/{{template "h" .}}">x</a><a href="{{template "h" .}}">y</a>`, c02Str("javascript:alert(1)"))           // D4
	cc(`{{define "Y"}}<b {{end}}{{define "X"}}{{template "Y"}}>k</b>{{template "Y"}}{{.}}>z</b>{{end}}{{template "X" .}}`, c02Str("onmouseover="+mkA)) // D1
	cc(`<script>var x = "<!--<script>";</script>{{.}}<b>`, c02Str(mkA))                                                                                // D13
	cc(`<script x="y"</script>{{.}}`, c02Str(mkA))                                                                                                     // D44
	cc(`<b>k</b><style media="all"</style>{{.}}`, c02Str(mkA))                                                                                         // D44
	cc(`<script defer</script  >{{.}}<i>t</i>`, c02Str(mkA))                                                                                           // D44
	js(`<video poster="{{.}}"></video>`, c02Str("javascript:alert(1)"))                                                                                // D34
	js(`<blockquote cite="{{.}}"></blockquote>`, c02Str("javascript:alert(1)"))                                                                        // D34
	cc(`<a {{if .C}}onclick{{else}}title{{end}}{{if .D}}{{end}}="{{.X}}">`, c02Map("C", "1", "D", "", "X", mkA))                                      // D46 (fixed)
	cc(`{{if .C}}<script{{else}}<div{{end}}{{if .D}} {{end}}>{{.X}}</script>`, c02Map("C", "1", "D", "", "X", mkA))                                    // D46 (fixed)
	js(`<a href="{{if .C}}{{else}}java{{end}}{{.X}}">x</a>`, c02Map("C", "", "D", "", "X", "script:alert(1)"))                                         // D47 (fixed)
	cc(`<script src="{{if .C}}{{else}}https://{{end}}{{.X}}"></script>`, c02Map("C", "", "D", "", "X", mkA+".org/x.js"))                               // D47 (fixed)
	cc(`<a data-x{{/* c */}}/onclick="{{.X}}">`, c02Map("N", "", "X", mkA))                                                                            // D48
	cc(`<iframe src{{/* c */}}doc="{{.X}}"></iframe>`, c02Map("N", "", "X", mkA))                                                                      // D48

	// ------------------------------------------------------------ (1) directed-search seeds first
	for _, s := range extraSeeds {
		for _, v := range seedVariants(s) {
			js(`<a href="{{.}}">x</a>`, c02Str(v))
			js(`<img srcset="{{.}}">`, c02Str(v))
			cc(`<a href="{{.}}">x</a>`, c02Str(v+mkA))
			for _, sp := range c02Splits(v) {
				js(`<a href="{{.A}}{{.B}}">x</a>`, c02Map("A", sp[0], "B", sp[1]))
			}
		}
	}

	// ------------------------------------------------------------ (2) the policy matrix, with markers
	type ea struct{ e, a string }
	var pairs []ea
	seenPair := map[ea]bool{}
	add := func(e, a string) {
		k := ea{e, a}
		if !seenPair[k] {
			seenPair[k] = true
			pairs = append(pairs, k)
		}
	}
	var specAttrs, globAttrs, contElems []string
	for a := range p.ElementSpecific {
		specAttrs = append(specAttrs, a)
	}
	for a := range p.GlobalAttr {
		globAttrs = append(globAttrs, a)
	}
	for e := range p.ElementContent {
		contElems = append(contElems, e)
	}
	for e := range p.AllowedVoid {
		contElems = append(contElems, e)
	}
	sort.Strings(specAttrs)
	sort.Strings(globAttrs)
	sort.Strings(contElems)
	for _, a := range specAttrs {
		var es []string
		for e := range p.ElementSpecific[a] {
			es = append(es, e)
		}
		sort.Strings(es)
		for _, e := range es {
			add(e, a)
		}
	}
	codeElems := []string{"script", "iframe", "frame", "embed", "object", "base", "link", "style", "a", "img", "div", "form", "button", "input", "video", "source", "area", "body", "svg", "x-foo", "SCRIPT"}
	globElems := codeElems
	if thorough {
		globElems = append(append([]string{}, codeElems...), contElems...)
	}
	for _, a := range globAttrs {
		for _, e := range globElems {
			add(e, a)
		}
	}
	// names outside the tables, and the attributes the property names on every element of interest
	outside := []string{"onclick", "onload", "onerror", "onmouseover", "ONCLICK", "OnClick", "onfoo", "on", "on-x", "style", "STYLE", "srcdoc", "SrcDoc", "src", "SRC", "href", "HREF", "data",
		"action", "formaction", "srcset", "poster", "cite", "background", "ping", "manifest", "longdesc", "codebase", "xlink:href", "data-x", "data-onclick", "foo", "rel", "type", "code", "classid", "archive", "imagesrcset"}
	for _, a := range outside {
		for _, e := range codeElems {
			add(e, a)
		}
	}
	extra["policy_pairs"] = len(pairs)
	prefixes := []string{"", "/p/", "https://h.example/", "/p?q=", "x", "about:blank#", "//h.example/"}
	for _, pr := range pairs {
		isURLish := false
		switch strings.ToLower(pr.a) {
		case "src", "href", "data", "action", "formaction", "srcset", "poster", "cite", "background", "ping", "manifest", "longdesc", "codebase", "xlink:href", "imagesrcset":
			isURLish = true
		}
		// one action, the three quoting styles
		for _, q := range []string{"dq", "sq", "none"} {
			cc(c02Tag(pr.e, "", pr.a, q, "{{.}}"), c02Str(mkA))
		}
		if isURLish || strings.HasPrefix(strings.ToLower(pr.a), "on") || strings.EqualFold(pr.a, "style") || strings.EqualFold(pr.a, "srcdoc") {
			for i, pre := range prefixes {
				q := "dq"
				if i%2 == 1 {
					q = "sq"
				}
				cc(c02Tag(pr.e, "", pr.a, q, pre+"{{.}}"), c02Str(mkA))
				cc(c02Tag(pr.e, "", pr.a, q, pre+"{{.A}}{{.B}}"), c02Map("A", mkA, "B", mkB))
				cc(c02Tag(pr.e, "", pr.a, q, pre+"{{.A}}/s/{{.B}}"), c02Map("A", mkA, "B", mkB))
				cc(c02Tag(pr.e, "", pr.a, q, pre+"{{range .}}{{.}}{{end}}"), c02List(mkA, mkB, mkC))
				cc(`{{define "h"}}{{.}}{{end}}`+c02Tag(pr.e, "", pr.a, q, pre+`{{template "h" .A}}{{template "h" .B}}`), c02Map("A", mkA, "B", mkB))
				cc(c02Tag(pr.e, "", pr.a, q, pre+"{{if .A}}{{.A}}{{else}}{{.B}}{{end}}"), c02Map("A", mkA, "B", mkB))
			}
			// data that tries to be an origin
			for _, d := range []string{"//" + mkA + "/x", "https://" + mkA + "/x", mkA + ":x", " " + mkA, "\\\\" + mkA + "\\x", "/\\" + mkA, "/" + mkA, "?" + mkA, "#" + mkA} {
				cc(c02Tag(pr.e, "", pr.a, "dq", "{{.}}"), c02Str(d))
			}
		} else {
			cc(c02Tag(pr.e, "", pr.a, "dq", "t {{.}}"), c02Str(mkA))
			cc(c02Tag(pr.e, "", pr.a, "dq", "{{.A}}{{.B}}"), c02Map("A", mkA, "B", mkB))
		}
	}

	// ------------------------------------------------------------ (2b) static prefixes at the edge of the validators
	// code-loading URL attributes: a prefix that stops INSIDE the scheme or the authority (no closing
	// slash), alternatives that a pattern must anchor, case / white-space / entity spellings; data
	// that continues the host, adds user-info or a port
	truSites := []string{`<script src="%s{{.}}"></script>`, `<link rel="stylesheet" href="%s{{.}}">`, `<iframe src='%s{{.}}'></iframe>`, `<embed src="%s{{.}}">`, `<object data="%s{{.}}"></object>`, `<base href="%s{{.}}">`,
		`<script src="%s{{.A}}/js/{{.B}}.js"></script>`}
	truPrefixes := []string{"//h.example", "https://h.example", "https://h.example:8080", "HTTPS://H.EXAMPLE", "//h.example.", "https://h", "//h", "//", "https://", "https:", "https:/", "https:///", "///", "/", "/x", "/x/",
		"//h.example/", "https://h.example/", "https://h.example\\", "https://h.example?", "https://h.example#", "//h.example?x", "about:blank", "about:blank#", "ABOUT:BLANK#", "about:blank#x",
		"x//h.example/", "x about:blank#", "/x about:blank#", "javascript://about:blank#", "data:about:blank#", "x/about:blank#/", "#about:blank#", "http://h.example/", "ftp://h.example/",
		"\thttps://h.example/", " //h.example/", "&#47;/h.example", "/&#47;h.example", "https:&#47;&#47;h.example", "//h.example&#46;", "//h&period;example", "https&colon;//h.example", "/\\h.example", "\\\\h.example/", "/%2f", "/.", "/..",
		"data:", "data:text/javascript,", "blob:", "javascript:", "filesystem:", "//[::1]", "//[::1]/", "//h.example:", "//h.example@", "//user@h.example"}
	hostData := []string{"." + mkA + ".org/x.js", "@" + mkA + ".org/x.js", ":80@" + mkA + ".org/", mkA + ".org/x.js", "/" + mkA + ".org/x.js", "/../" + mkA, mkA}
	for _, site := range truSites {
		for i, pre := range truPrefixes {
			t := fmt.Sprintf(site, pre)
			if strings.Contains(site, ".A") {
				cc(t, c02Map("A", hostData[i%len(hostData)], "B", mkB))
				continue
			}
			for j, d := range hostData {
				if thorough || j == i%len(hostData) || j == 0 {
					cc(t, c02Str(d))
				}
			}
		}
	}
	// URL attributes: a prefix whose scheme is javascript (or another script scheme) and that goes on
	// past a '/', '?' or '#', in the spellings a browser accepts
	jsPrefixes := []string{"javascript:f('/p/", "javascript:void(0)//", "javascript:s('?q=", "javascript:x#", "javascript:/", "javascript://h.example/%0a", "JavaScript:f('/", "JAVASCRIPT:/",
		"javascript&colon;f('/p/", "javascript&#58;//", "javascript&#x3a;/?", "&#106;avascript:/", "&#x6a;avascript:f(/", "java&Tab;script:/", "java&NewLine;script:f('/", "jav&#x0A;ascript:/x",
		" javascript:/", "&#1;javascript:/", "&nbsp;javascript:/", "javascript :/", "vbscript:/", "data:text/html,/", "data:text/html;base64,/", "x:javascript:/", "/javascript:/", "?javascript:/", "#javascript:/",
		"javascript:alert(1)//", "javascript:'/*", "javascript:`${'/", "javascript:%2f/", "javascript:a?b:c/"}
	jsSites := []string{`<a href="%s{{.}}">x</a>`, `<form action="%s{{.}}')"></form>`, `<button formaction='%s{{.}}'>b</button>`, `<img src="%s{{.}}">`, `<link rel="icon" href="%s{{.}}">`, `<a href="%s{{.A}}'{{.B}}">x</a>`, `<img srcset="%s{{.}} 2x">`, `<iframe src="%s{{.}}"></iframe>`}
	for si, site := range jsSites {
		for i, pre := range jsPrefixes {
			if !thorough && si > 1 && (i+si)%3 != 0 {
				continue
			}
			t := fmt.Sprintf(site, pre)
			if strings.Contains(site, ".A") {
				js(t, c02Map("A", "x", "B", ");alert(1)//"))
				continue
			}
			js(t, c02Str("');alert(1)//"))
			js(t, c02Str("x"))
		}
	}

	// ------------------------------------------------------------ (3) element bodies, comments, handlers
	bodyElems := append([]string{"script", "style", "SCRIPT", "Style", "textarea", "title", "xmp", "iframe", "noscript", "noembed", "noframes", "plaintext", "svg", "math", "x-foo", "template", "object", "select", "table"}, contElems...)
	leaves := []string{mkA, "</script>" + mkA, "</style>" + mkA, "-->" + mkA, "--!>" + mkA, "<!--" + mkA, "<script>" + mkA + "</script>", "<style>" + mkA + "</style>", "\"" + mkA, "'" + mkA, "`" + mkA, "*/" + mkA, "\\" + mkA,
		"<img src=x onerror=" + mkA + ">", "\" onclick=\"" + mkA, "' onclick='" + mkA, " onclick=" + mkA, ">" + mkA, "<" + mkA, "&lt;script&gt;" + mkA, "\x00" + mkA, "\xff" + mkA, "]]>" + mkA}
	seenBody := map[string]bool{}
	for _, e := range bodyElems {
		if seenBody[e] {
			continue
		}
		seenBody[e] = true
		for i, l := range leaves {
			if !thorough && i >= 6 && e != "script" && e != "style" && e != "div" && e != "textarea" && e != "title" {
				break
			}
			cc("<"+e+">{{.}}</"+e+">", c02Str(l))
			cc("<"+e+">a{{.A}}b{{.B}}c</"+e+">", c02Map("A", l, "B", mkB))
		}
		cc("<"+e+">{{range .}}{{.}}{{end}}</"+e+">", c02List(mkA, mkB))
		cc(`{{define "h"}}{{.}}{{end}}<`+e+`>{{template "h" .}}</`+e+`>`, c02Str(mkA))
		cc("<"+e+" title=t>{{if .}}{{.}}{{end}}</"+e+">", c02Str(mkA))
	}
	staticCode := []string{`<script>var x = "{{.}}";</script>`, `<script>var x = '{{.}}';</script>`, `<script>/* {{.}} */</script>`, `<script>// {{.}}
</script>`, "<script>var x = `{{.}}`;</script>", `<script type="text/plain">{{.}}</script>`, `<script type="application/json">{{.}}</script>`, `<script type="text/x-template">{{.}}</script>`,
		`<style>a{b:{{.}}}</style>`, `<style>/* {{.}} */</style>`, `<style>a{background:url({{.}})}</style>`,
		`<!-- {{.}} -->`, `<!--{{.}}-->`, `<!--{{.}}`, `<!-- a -->{{.}}<!-- b -->`, `<!{{.}}>`, `<?{{.}}>`, `<!DOCTYPE {{.}}>`, `<![CDATA[{{.}}]]>`, `</{{.}}>`, `<{{.}}>`, `<b {{.}}>`, `<b {{.}}=x>`, `<b x={{.}}>`, `<b x{{.}}=y>`,
		`<script>a</script>{{.}}`, `<script>a</script><!-- x -->{{.}}`, `<style>a</style>{{.}}<script>b</script>`, `<script><!--</script>{{.}}`, `<script><!--<script></script>{{.}}</script>`,
		`<script>var x = "<!--<script>";</script>{{.}}<b>`, `<script>"<!--<SCRIPT "</script><b title="{{.}}">`, `<script>if (a<!--b) {}</script>{{.}}`, `<script><!--
<script>x</script>
--></script>{{.}}`, `<style><!--</style>{{.}}`, `<title><!--</title>{{.}}`, `<textarea><!--<script></textarea>{{.}}`,
		`<div onclick="f('{{.}}')">`, `<div onclick="{{.}}">`, `<div onclick='{{.}}'>`, `<div onclick={{.}}>`, `<div ONCLICK="{{.}}">`, `<div onmouseover="a" title="{{.}}">`, `<div title="a" onclick="b{{.}}">`,
		`<div style="color:{{.}}">`, `<div style="{{.}}">`, `<div style='a:b;{{.}}'>`, `<div STYLE="{{.}}">`, `<iframe srcdoc="{{.}}"></iframe>`, `<iframe srcdoc="<b>{{.}}</b>"></iframe>`, `<iframe SRCDOC='{{.}}'></iframe>`,
		`<svg><script>{{.}}</script></svg>`, `<svg><style>{{.}}</style></svg>`, `<math><script>{{.}}</script></math>`, `<svg><a xlink:href="{{.}}">x</a></svg>`, `<svg onload="{{.}}">`,
		`<a href="{{.}}" onclick="x">y</a>`, `<a onclick="x" href="{{.}}">y</a>`, `<img src="{{.}}" onerror="x">`, `<body onload="{{.}}">`, `<form action="{{.}}" onsubmit="{{.}}">`, `<input formaction="{{.}}" onfocus="{{.}}" autofocus>`,
		`<object data="{{.}}"></object>`, `<embed src="{{.}}">`, `<base href="{{.}}">`, `<frame src="{{.}}">`, `<iframe src="{{.}}"></iframe>`, `<script src="{{.}}"></script>`, `<script src="{{.}}">var a</script>`,
		`<script src="/js/{{.}}.js"></script>`, `<script src="https://s.example/{{.}}"></script>`, `<script src="//s.example/{{.}}"></script>`, `<script src="https://{{.}}/x.js"></script>`, `<script src="https://s.example{{.}}/x.js"></script>`,
		`<script src="//{{.}}"></script>`, `<script src="/{{.}}"></script>`, `<script src="about:blank#{{.}}"></script>`, `<iframe src="/f/{{.}}"></iframe>`, `<iframe src="https://f.example/{{.}}?a={{.}}#{{.}}"></iframe>`,
		`<script src="/js/&#46;{{.}}"></script>`, `<script src="/js&#47;{{.}}"></script>`, `<script src="https:&#47;&#47;{{.}}"></script>`, `<script src="/&#47;{{.}}"></script>`, `<script src="/&sol;{{.}}"></script>`, `<script src="/&bsol;{{.}}"></script>`, `<script src="/&Tab;/{{.}}"></script>`, `<script src="/&NewLine;/{{.}}"></script>`,
		`<iframe src="/&#9;/{{.}}"></iframe>`, `<embed src="/x/{{.}}">`, `<object data="/x/{{.}}"></object>`, `<base href="/x/{{.}}">`, `<frame src="/x/{{.}}">`,
	}
	// look-alikes of the end tag of a special element inside its body, then an action that is still inside it
	for _, el := range []string{"script", "style", "textarea", "title"} {
		for _, ch := range []string{"-", ".", "_", ":", "x", "1", "\u00a0", "\x00", "/", "\v"} {
			staticCode = append(staticCode, "<"+el+">var re = \"</"+el+ch+">\"; {{.}}</"+el+">", "<"+el+">a</"+strings.ToUpper(el)+ch+" {{.}}</"+el+">")
		}
	}
	for _, t := range staticCode {
		for i, l := range leaves {
			if !thorough && i >= 4 {
				break
			}
			cc(t, c02Str(l))
		}
		cc(t, c02Str("//"+mkA+"/x"))
		cc(t, c02Str("https://"+mkA+"/x"))
	}

	// ------------------------------------------------------------ (4) link rel
	rels := []string{"stylesheet", "alternate", "alternate stylesheet", "stylesheet alternate", "icon", "ICON STYLESHEET", "Stylesheet", "StyleSheet Icon", "style sheet", "stylesheet\ticon", "icon\nstylesheet", "icon\fstylesheet",
		"icon\rstylesheet", "preload", "prefetch", "import", "modulepreload", "", " ", "stylesheet&#32;icon", "&#115;tylesheet icon", "icon&Tab;stylesheet", "stylesheet&nbsp;icon", "stylesheet icon", "stylesheet\x0bicon",
		"next stylesheet prev", "nofollow", "nofollow stylesheet", "stylesheet nofollow", "alternate stylesheet", "ſtylesheet icon", "author license stylesheet", "canonical"}
	linkData := []string{mkA, "//" + mkA + "/x.css", "https://" + mkA + "/x.css", "/" + mkA + ".css", mkA + ":x"}
	for _, rel := range rels {
		for _, d := range linkData {
			cc(`<link rel="`+rel+`" href="{{.}}">`, c02Str(d))
			cc(`<link href="{{.}}" rel="`+rel+`">`, c02Str(d))
			cc(`<link rel='`+rel+`' href='{{.}}'>`, c02Str(d))
			cc(`<LINK REL="`+rel+`" HREF="{{.}}">`, c02Str(d))
			cc(`<link rel="`+rel+`" type="text/css" href="/css/{{.}}">`, c02Str(d))
			cc(`<link rel="icon" href="{{.}}" rel="`+rel+`">`, c02Str(d))
			cc(`<link rel="`+rel+`" href="{{.}}" rel="icon">`, c02Str(d))
		}
		cc(`<link rel="`+rel+`" href="{{.A}}{{.B}}">`, c02Map("A", "//"+mkA, "B", "/"+mkB))
		js(`<link rel="`+rel+`" href="{{.A}}{{.B}}">`, c02Map("A", "java", "B", "script:alert(1)"))
		js(`<link rel="`+rel+`" href="{{.}}">`, c02Str("javascript:alert(1)"))
	}
	cc(`<link rel="{{.}}" href="/x.css">`, c02Str(mkA))
	cc(`<link rel="{{.A}}" href="{{.B}}">`, c02Map("A", "stylesheet", "B", "//"+mkB+"/x.css"))
	cc(`<link {{if .A}}rel="stylesheet"{{else}}rel="icon"{{end}} href="{{.B}}">`, c02Map("A", "1", "B", "//"+mkB+"/x.css"))
	cc(`<link rel="{{if .A}}stylesheet{{else}}icon{{end}}" href="{{.B}}">`, c02Map("A", "1", "B", "//"+mkB+"/x.css"))
	// branches that differ ONLY in the rel value (or in where the tag starts), both orders, both outcomes
	for _, a := range []string{"1", ""} {
		for _, rels := range [][2]string{{"icon", "stylesheet"}, {"stylesheet", "icon"}, {"alternate", "stylesheet"}, {"next", "STYLESHEET"}} {
			cc(`<link {{if .A}}rel="`+rels[0]+`"{{else}}rel="`+rels[1]+`"{{end}} href="{{.B}}">`, c02Map("A", a, "B", "//"+mkB+"/x.css"))
			cc(`{{if .A}}<link rel="`+rels[0]+`"{{else}}<link rel="`+rels[1]+`"{{end}} href="{{.B}}">`, c02Map("A", a, "B", "//"+mkB+"/x.css"))
			cc(`{{with .A}}<link rel="`+rels[0]+`"{{else}}<link rel="`+rels[1]+`"{{end}} href="{{$.B}}">`, c02Map("A", a, "B", "//"+mkB+"/x.css"))
		}
		cc(`<script {{if .A}}type="text/plain"{{else}}type="text/javascript"{{end}} src="{{.B}}"></script>`, c02Map("A", a, "B", "//"+mkB+"/x.js"))
	}

	// ------------------------------------------------------------ (5) helper templates: D1, D4 shapes
	helperData := []string{mkA, "//" + mkA + "/x", "onmouseover=" + mkA, "javascript:" + mkA}
	d4 := []string{
		`{{define "h"}}{{.}}{{end}}<script src="/js/{{template "h" .}}"></script><script src="{{template "h" .}}"></script>`,
		`{{define "h"}}{{.}}{{end}}<script src="{{template "h" .}}"></script><script src="/js/{{template "h" .}}"></script>`,
		`{{define "h"}}{{.}}{{end}}<iframe src="https://f.example/{{template "h" .}}"></iframe><iframe src="{{template "h" .}}"></iframe>`,
		`{{define "h"}}{{.}}{{end}}<a href="/foo/{{template "h" .}}">x</a><a href="{{template "h" .}}">y</a>`,
		`{{define "h"}}{{.}}{{end}}<link rel="icon" href="{{template "h" .}}"><link rel="stylesheet" href="{{template "h" .}}">`,
		`{{define "h"}}{{.}}{{end}}<link rel="stylesheet" href="/c/{{template "h" .}}"><link rel="stylesheet" href="{{template "h" .}}">`,
		`{{define "h"}}{{.}}{{end}}<div title="{{template "h" .}}"></div><div style="{{template "h" .}}"></div>`,
		`{{define "h"}}{{.}}{{end}}<b>{{template "h" .}}</b><script>{{template "h" .}}</script>`,
		`{{define "h"}}{{.}}{{end}}<a href="{{template "h" .}}">x</a><script src="{{template "h" .}}"></script>`,
		`{{define "h"}}<b>{{.}}</b>{{end}}{{template "h" .}}<p>{{template "h" .}}</p>`,
	}
	d1 := []string{
		`{{define "Y"}}<b {{end}}{{define "X"}}{{template "Y"}}>k</b>{{template "Y"}}{{.}}>z</b>{{end}}{{template "X" .}}`,
		`{{define "Y"}}<script>{{end}}{{define "X"}}{{template "Y"}}var a;</script>{{template "Y"}}{{.}}</script>{{end}}{{template "X" .}}`,
		`{{define "Y"}}<style>{{end}}{{define "X"}}{{template "Y"}}a{}</style>{{template "Y"}}{{.}}</style>{{end}}{{template "X" .}}`,
		`{{define "Y"}}<a href="{{end}}{{define "X"}}{{template "Y"}}/x">k</a>{{template "Y"}}{{.}}">z</a>{{end}}{{template "X" .}}`,
		`{{define "Y"}}<script src="{{end}}{{define "X"}}{{template "Y"}}/x.js"></script>{{template "Y"}}{{.}}"></script>{{end}}{{template "X" .}}`,
		`{{define "Y"}}<div onclick="{{end}}{{define "X"}}{{template "Y"}}f()"></div>{{template "Y"}}{{.}}"></div>{{end}}{{template "X" .}}`,
		`{{define "Y"}}<!--{{end}}{{define "X"}}{{template "Y"}}-->{{template "Y"}}{{.}}-->{{end}}{{template "X" .}}`,
		`{{define "Y"}}<b {{end}}{{template "Y"}}>k</b>`,
		`{{define "Y"}}<b>{{end}}{{define "X"}}{{template "Y"}}k</b>{{template "Y"}}{{.}}</b>{{end}}{{template "X" .}}`,
	}
	for _, t := range append(append([]string{}, d4...), d1...) {
		for _, d := range helperData {
			cc(t, c02Str(d))
		}
		js(t, c02Str("javascript:alert(1)"))
		js(t, c02Str("JaVaScRiPt:alert(1)//"))
	}

	// ------------------------------------------------------------ (5b) histories on one set: a member that is refused (it
	// ends in a non-text context, or a later action is refused) executed first, then a healthy member
	// that shares a helper with it: the helper's sanitizers must be in place
	histSets := []string{
		`{{define "widget"}}<script>{{.J}}</script><a href="{{.A}}">x</a>{{end}}{{define "partial"}}{{template "widget" .}}<div title="{{.B}}{{end}}{{define "page"}}<p>{{template "widget" .}}</p>{{end}}m`,
		`{{define "h"}}<b>{{.A}}</b>{{end}}{{define "bad"}}{{template "h" .}}<a href="{{end}}{{define "good"}}<i>{{template "h" .}}</i>{{end}}m`,
		`{{define "h"}}<a href="{{.A}}">l</a>{{end}}{{define "bad"}}{{template "h" .}}<div onclick="{{.B}}">{{end}}{{define "good"}}<p>{{template "h" .}}</p>{{end}}m`,
		`{{define "h"}}{{.A}}{{end}}{{define "bad"}}<script>{{template "h" .}}{{end}}{{define "good"}}<script>{{template "h" .}}</script>{{end}}{{define "text"}}<p>{{template "h" .}}</p>{{end}}m`,
		`{{define "h"}}<img src="{{.A}}">{{end}}{{define "bad"}}{{if .B}}<b>{{else}}<i title="{{end}}{{template "h" .}}{{end}}{{define "good"}}{{template "h" .}}!{{end}}m`,
	}
	for _, t := range histSets {
		for _, seq := range []string{"bad\x01good", "partial\x01page", "bad\x01bad\x01good", "good\x01bad\x01good", "partial\x01partial\x01page", "bad\x01text", "bad\x01good\x01text", "page\x01partial\x01page"} {
			for _, d := range []string{mkA, "javascript:" + mkA, "//" + mkA + "/x", "\"><script>" + mkA + "</script>"} {
				emit(c, "codectx_hist", t, seq, c02Map("A", d, "B", mkB, "J", mkC), c02Markers)
			}
		}
	}

	// ------------------------------------------------------------ (6) javascript: URLs, split at every position
	urlSites := []struct{ e, a, rel string }{{"a", "href", ""}, {"area", "href", ""}, {"img", "src", ""}, {"form", "action", ""}, {"button", "formaction", ""}, {"input", "formaction", ""},
		{"img", "srcset", ""}, {"source", "srcset", ""}, {"link", "href", "icon"}, {"video", "src", ""}, {"audio", "src", ""}, {"input", "src", ""}, {"source", "src", ""},
		{"iframe", "src", ""}, {"script", "src", ""}, {"video", "poster", ""}, {"blockquote", "cite", ""}, {"a", "ping", ""}, {"object", "data", ""}, {"a", "data-href", ""}, {"a", "title", ""}}
	site := func(s struct{ e, a, rel string }, q, value string) string {
		ex := ""
		if s.rel != "" {
			ex = `rel="` + s.rel + `"`
		}
		return c02Tag(s.e, ex, s.a, q, value)
	}
	folds := c02Foldings("javascript")
	// every case folding, as one value, on the main sites
	for i, f := range folds {
		if !thorough && i%4 != 0 && i > 64 {
			continue
		}
		js(`<a href="{{.}}">x</a>`, c02Str(f+":alert(1)"))
		if thorough || i%16 == 0 {
			js(`<form action="{{.}}"></form>`, c02Str(f+":alert(1)"))
			js(`<img srcset="{{.}}">`, c02Str(f+":alert(1) 2x"))
			js(`<a href="{{.A}}{{.B}}">x</a>`, c02Map("A", f[:4], "B", f[4:]+":alert(1)"))
		}
	}
	dangerous := []string{"javascript:alert(1)", "JAVASCRIPT:alert(1)", "JavaScript:alert(1)", "jAvAsCrIpT:alert(1)",
		"java\tscript:alert(1)", "java\nscript:alert(1)", "jav\rascript:alert(1)", "javascript\t:alert(1)", "j\ta\nv\ra\tscript:alert(1)",
		" javascript:alert(1)", "\tjavascript:alert(1)", "\njavascript:alert(1)", "\x01javascript:alert(1)", "\x00javascript:alert(1)", "\x1f \x0bjavascript:alert(1)", "\u00a0javascript:alert(1)", "\ufeffjavascript:alert(1)",
		"&#106;avascript:alert(1)", "&#x6A;avascript:alert(1)", "&#x6a avascript:alert(1)", "&#0000106avascript:alert(1)", "javascript&colon;alert(1)", "javascript&#58;alert(1)", "javascript&#x3a;alert(1)", "javascript&#x3A alert(1)",
		"java&Tab;script:alert(1)", "java&NewLine;script:alert(1)", "java&#9;script:alert(1)", "java&#10;script&colon;alert(1)", "&Tab;javascript:alert(1)", "&#32;javascript:alert(1)", "&#1;javascript:alert(1)",
		"javascrİpt:alert(1)", "javascrıpt:alert(1)", "javaſcript:alert(1)", "Kavascript:alert(1)", "javascript∶alert(1)", "javascript：alert(1)", "ｊavascript:alert(1)",
		"javascript:", "javascript:/", "javascript://%0aalert(1)", "javascript:alert(1)//http://x/", "javascript:alert(1)?a=b#c", "vbscript:msgbox(1)", "data:text/html,<script>alert(1)</script>", "livescript:x", "view-source:javascript:alert(1)",
		"feed:javascript:alert(1)", "jar:javascript:alert(1)!/", "blob:javascript:alert(1)", "javascript%3aalert(1)", "javascript%3Aalert(1)", "java%0ascript:alert(1)", "java\\script:alert(1)", "javascript;alert(1)", "javascript alert(1)",
		"\\javascript:alert(1)", "/javascript:alert(1)", "?javascript:alert(1)", "#javascript:alert(1)", "x/javascript:alert(1)", "javascript:alert(1) 2x, /b.png 1x", "/a.png 1x, javascript:alert(1) 2x", "/a.png,javascript:alert(1)",
		"\xffjavascript:alert(1)", "java\xffscript:alert(1)", "javascript\xc0\xba alert(1)", "java\xc2script:alert(1)", "\xef\xbb\xbfjavascript:alert(1)"}
	splitShapes := func(s struct{ e, a, rel string }, q string, a, b string) {
		js(site(s, q, "{{.A}}{{.B}}"), c02Map("A", a, "B", b))
		js(site(s, q, "{{range .L}}{{.}}{{end}}"), "map:L="+c02List(a, b))
		js(`{{define "h"}}{{.}}{{end}}`+site(s, q, `{{template "h" .A}}{{template "h" .B}}`), c02Map("A", a, "B", b))
	}
	for di, d := range dangerous {
		for si, s := range urlSites {
			if !thorough && si >= 7 && di%5 != si%5 {
				continue
			}
			q := "dq"
			if (di+si)%3 == 1 {
				q = "sq"
			}
			js(site(s, q, "{{.}}"), c02Str(d))
			if si < 3 || thorough || (si < 9 && di < 8) {
				for _, sp := range c02Splits(d) {
					if !thorough && si >= 1 && len(sp[0])%3 != di%3 && len(sp[0]) > 12 {
						continue
					}
					splitShapes(s, q, sp[0], sp[1])
				}
			}
		}
		// every byte its own loop iteration / its own action
		var chars []string
		for i := 0; i < len(d); i++ {
			chars = append(chars, d[i:i+1])
		}
		js(`<a href="{{range .}}{{.}}{{end}}">x</a>`, c02List(chars...))
		js(`<img srcset="{{range .}}{{.}}{{end}}">`, c02List(chars...))
		// three pieces, the middle one static
		for _, sp := range c02Splits(d) {
			if len(sp[1]) > 0 && (thorough || len(sp[0])%4 == 0) {
				mid := sp[1][:1]
				if !strings.ContainsAny(mid, "\"<>{}'`\x00") && mid[0] < 0x80 && mid[0] >= 0x20 {
					js(`<a href="{{.A}}`+mid+`{{.B}}">x</a>`, c02Map("A", sp[0], "B", sp[1][1:]))
				}
			}
		}
		js(`<a href="{{.}}&colon;alert(1)">x</a>`, c02Str(strings.SplitN(d, ":", 2)[0]))
		js(`<a href="{{.}}:alert(1)">x</a>`, c02Str(strings.SplitN(d, ":", 2)[0]))
		js(`<a href="{{.}}&#58;alert(1)">x</a>`, c02Str(strings.SplitN(d, ":", 2)[0]))
		js(`<a href="{{.}}&Tab;script:alert(1)">x</a>`, c02Str("java"))
		// after validated static prefixes: must stay harmless
		for _, pre := range []string{"/x/", "/x?q=", "#", "?", "https://h.example/", "//h.example/p/", "mailto:", "/", "x/", "./"} {
			js(`<a href="`+pre+`{{.}}">x</a>`, c02Str(d))
			js(`<a href="`+pre+`{{.A}}{{.B}}">x</a>`, c02Map("A", d[:len(d)/2], "B", d[len(d)/2:]))
		}
		// prefixes the engine must refuse or that keep the scheme fixed
		for _, pre := range []string{"java", "javascript", "javascript:", "JAVA", "&#106;ava", " ", "&Tab;", "j", "x", "java&Tab;"} {
			js(`<a href="`+pre+`{{.}}">x</a>`, c02Str(d))
			js(`<a href="`+pre+`{{.}}">x</a>`, c02Str("script:alert(1)"))
		}
	}
	// scheme + "://" patterns
	for _, s := range []string{"javascript", "JAVASCRIPT", "JavaScript", "java\tscript", "java\nscript", " javascript", "https", "http", "data", "vbscript", "x", "", "javascript:", "&#106;avascript", "javascrİpt"} {
		for _, h := range []string{"%0aalert(1)", "\nalert(1)", "h.example", "h.example/%0aalert(1)", "", "alert(1)", "x/../alert(1)"} {
			js(`<a href="{{.S}}://{{.H}}/x">x</a>`, c02Map("S", s, "H", h))
			js(`<a href="{{.S}}:{{.H}}">x</a>`, c02Map("S", s, "H", h))
			js(`<a href="{{.S}}&colon;//{{.H}}">x</a>`, c02Map("S", s, "H", h))
			js(`<form action="{{.S}}://{{.H}}/x"></form>`, c02Map("S", s, "H", h))
			js(`<img src="{{.S}}://{{.H}}/x">`, c02Map("S", s, "H", h))
		}
	}
	// srcset: candidates assembled from pieces
	for _, d := range []string{"javascript:alert(1)", "JavaScript:alert(1)", "java\tscript:alert(1)", "&#106;avascript:alert(1)"} {
		for _, sp := range c02Splits(d) {
			js(`<img srcset="/a.png 1x, {{.A}}{{.B}} 2x">`, c02Map("A", sp[0], "B", sp[1]))
			js(`<img srcset="{{.A}}, {{.B}}">`, c02Map("A", sp[0], "B", sp[1]))
			js(`<img srcset="{{.A}} 1x,{{.B}} 2x">`, c02Map("A", sp[0], "B", sp[1]))
		}
		js(`<img srcset="/a.png 1x, {{.}} 2x">`, c02Str(d))
		js(`<img srcset="{{.}} 1x, /b.png 2x">`, c02Str(d))
		js(`<img srcset="{{.A}} 1x, {{.B}} 2x">`, c02Map("A", d, "B", "/b.png"))
	}

	// ------------------------------------------------------------ (6b) names split over several text nodes, conditional names followed by
	// further conditionals, conditional static URL prefixes (the else side included)
	seps := []string{`{{/* c */}}`, `{{if .N}}{{end}}`, `{{with .N}}{{end}}`, `{{range .N}}{{end}}`, `{{define "e"}}{{end}}{{template "e"}}`, `{{if .N}}{{else}}{{end}}`}
	splitNames := [][2]string{{"data-x", "/onclick"}, {"data-x", "onclick"}, {"src", "doc"}, {"title", "/"}, {"title", "/onmouseover"}, {"alt", "/style"}, {"data-", "x"}, {"on", "click"}, {"hre", "f"}, {"sr", "c"},
		{"sty", "le"}, {"srcdo", "c"}, {"id", "/href"}, {"class", "/srcdoc"}, {"title", "/src"}, {"data-a", "/data"}, {"o", "nclick"}, {"data-x", " onclick"}, {"title", "\tstyle"}, {"x", ":href"}, {"xlink", ":href"}, {"form", "action"}, {"dir", "/formaction"}}
	splitElems := []string{"a", "div", "iframe", "script", "img", "object", "button"}
	for si, sp := range seps {
		for ni, nm := range splitNames {
			for ei, e := range splitElems {
				if !thorough && (si+ni+ei)%3 != 0 && !(si == 0 && ei < 3) {
					continue
				}
				t := "<" + e + " " + nm[0] + sp + nm[1] + `="{{.X}}">`
				cc(t, c02Map("N", "", "X", mkA))
				cc(t, c02Map("N", "", "X", "//"+mkA+"/x"))
				js(t, c02Map("N", "", "X", "javascript:alert(1)"))
				cc("<"+e+" "+nm[0]+sp+nm[1]+`='{{.X}}'>`, c02Map("N", "", "X", mkA))
				cc("<"+e+" "+nm[0]+sp+nm[1]+`={{.X}}>`, c02Map("N", "", "X", mkA))
			}
		}
	}
	condNames := []string{
		`<a {{if .C}}title{{end}}{{if .D}}{{end}}="{{.X}}">`,
		`<a {{if .C}}title{{else}}onclick{{end}}="{{.X}}">`,
		`<a {{if .C}}title{{else}}onclick{{end}}{{if .D}}{{end}}="{{.X}}">`,
		`<a {{if .C}}onclick{{else}}title{{end}}{{if .D}}{{end}}="{{.X}}">`,
		`<a {{if .C}}title{{else}}href{{end}}{{if .D}}{{end}}="{{.X}}">`,
		`<a {{if .C}}title{{else}}style{{end}}{{with .D}}{{end}}="{{.X}}">`,
		`<iframe {{if .C}}title{{else}}srcdoc{{end}}{{if .D}}{{else}}{{end}}="{{.X}}"></iframe>`,
		`<a {{if .C}}title{{else}}onclick{{end}}{{if .D}} {{end}}="{{.X}}">`,
		`<a {{if .C}}title{{else}}{{if .D}}onclick{{else}}alt{{end}}{{end}}="{{.X}}">`,
		`<a {{if .C}}{{if .D}}onclick{{else}}alt{{end}}{{else}}title{{end}}="{{.X}}">`,
		`{{if .C}}<script{{else}}<div{{end}}{{if .D}} {{end}}>{{.X}}</script>`,
		`{{if .C}}<div{{else}}<script{{end}}{{if .D}} {{end}}>{{.X}}</script>`,
		`{{if .C}}<style{{else}}<div{{end}}{{if .D}} {{end}}>{{.X}}</style>`,
		`{{if .C}}<script{{else}}<div{{end}}>{{.X}}</script>`,
		`{{if .C}}<script {{else}}<img {{end}}src="{{.X}}">`,
		`{{if .C}}<script {{else}}<img {{end}}{{if .D}}{{end}}src="{{.X}}">`,
		`{{if .C}}{{if .D}}<script {{else}}<img {{end}}{{else}}<img {{end}}src="{{.X}}">`,
		`{{if .C}}<img {{else}}{{if .D}}<script {{else}}<img {{end}}{{end}}src="{{.X}}">`,
		`{{if .C}}<img {{else}}{{if .D}}<img {{else}}<script {{end}}{{end}}src="{{.X}}">`,
		`{{if .C}}{{if .D}}<img {{else}}<iframe {{end}}{{else}}<img {{end}}src="{{.X}}">`,
		`{{if .C}}<a {{else}}<base {{end}}{{if .D}}{{end}}href="{{.X}}">`,
		`{{if .C}}<a {{else}}<link rel="stylesheet" {{end}}{{if .D}}{{end}}href="{{.X}}">`,
		`{{with .C}}<script{{else}}<div{{end}}{{with .D}} {{end}}>{{$.X}}</script>`,
		`{{range .L}}<script{{else}}<div{{end}}{{if .D}} {{end}}>{{.X}}</script>`,
		`<div {{if .C}}title="a"{{else}}onclick="a"{{end}} {{if .D}}id{{else}}lang{{end}}="{{.X}}">`,
		// a conditional element name, then one or more COMPLETE static attributes, then the action
		`{{if .C}}<script{{else}}<span{{end}} class="c">{{.X}}</script>`,
		`{{if .C}}<script{{else}}<img{{end}} id="main" src="{{.X}}">`,
		`{{if .C}}<script{{else}}<img{{end}} id=main defer src="{{.X}}">`,
		`{{if .C}}<link{{else}}<a{{end}} rel="stylesheet" href="{{.X}}">`,
		`{{if .C}}<iframe{{else}}<img{{end}} title='t' class="c" src='{{.X}}'>`,
		`{{if .C}}<style{{else}}<p{{end}} media="all" title="t">{{.X}}</style>`,
		`{{if .C}}<a{{else}}<base{{end}} target="_blank" href="{{.X}}">`,
		`{{if .C}}<script{{else}}<span{{end}} class="c" {{if .D}}id="i"{{end}}>{{.X}}</script>`,
		`{{with .C}}<script{{else}}<span{{end}} class="c">{{$.X}}</script>`,
	}
	for _, t := range condNames {
		for _, cv := range []string{"", "1"} {
			for _, dv := range []string{"", "1"} {
				cc(t, c02Map("C", cv, "D", dv, "X", mkA))
				cc(t, c02Map("C", cv, "D", dv, "X", "//"+mkA+"/x.js"))
				js(t, c02Map("C", cv, "D", dv, "X", "javascript:alert(1)"))
			}
		}
	}
	// srcset values whose candidates are separated by each kind of ASCII white space / control
	for _, ws := range []string{" ", "\t", "\n", "\f", "\r", "\v", "\x00", "\x1f", "\u00a0", "\u2028"} {
		for _, v := range []string{"/a.png" + ws + ",javascript:alert(1)", "/a.png 1x," + ws + "javascript:alert(1) 2x", "javascript:alert(1)" + ws + "1x", "/a.png" + ws + "1x,javascript:alert(1)" + ws + "2x",
			ws + "javascript:alert(1)", "/a.png," + ws + "javascript:alert(1)" + ws + ",/b.png"} {
			js(`<img srcset="{{.}}">`, c02Str(v))
			js(`<source srcset='{{.}}'>`, c02Str(v))
		}
	}
	// break / continue taken while a script / style / attribute value is still open (the unchanged engine
	// panics on them: finding D7 of C08); special element bodies with non-ASCII bytes before the end tag
	for _, t := range []string{
		`{{range .}}<script>{{if .}}{{break}}{{end}}</script>{{end}}<b>{{index . 0}}</b></script>`,
		`{{range .}}<style>{{if .}}{{break}}{{end}}</style>{{end}}{{index . 0}}</style>`,
		`{{range .}}<a href="{{if .}}{{break}}{{end}}/x">k</a>{{end}}{{index . 0}}">z</a>`,
		`{{range .}}<div onclick="{{if .}}{{continue}}{{end}}f()">k</div>{{end}}{{index . 1}}">z</div>`,
		`{{range .}}<script src="{{if .}}{{break}}{{end}}/x.js"></script>{{end}}{{index . 0}}"></script>`,
		"<textarea>caf\xe9</textarea><script>{{index . 0}}</script><textarea>y</textarea>",
		"<title>\u212a\u212a\u212a</title><script>{{index . 0}}</script><title>t</title>",
		"<script>var s = \"\u023a\u023a\u023a\";</script><p>{{index . 0}}</p><script>var t;</script>",
		"<style>/* \u0130\u0130 */</style><i>{{index . 1}}</i><style>a{}</style>",
		"<script>/*\xe9\xe9\xe9\xe9\xe9\xe9\xe9\xe9\xe9*/</script><b>{{index . 0}}</b><script>x</script>",
	} {
		cc(t, c02List(mkA, mkB))
		cc(t, c02List("//"+mkA+"/x.js", "javascript:"+mkB))
	}
	condPrefixes := []string{`{{if .C}}{{else}}java{{end}}`, `{{if .C}}java{{end}}`, `{{if .C}}{{else}}javascript:{{end}}`, `{{if .C}}javascript:{{end}}`, `{{if .C}}/p/{{else}}https://h.example/{{end}}`, `{{if .C}}{{else}}//{{end}}`,
		`{{if .C}}{{else}}https://{{end}}`, `{{if .C}}https://{{end}}`, `{{with .C}}{{else}}java{{end}}`, `{{range .C}}{{else}}java{{end}}`, `{{if .C}}{{else}}{{if .D}}{{else}}java{{end}}{{end}}`, `{{if .C}}{{else}}j{{end}}{{if .D}}{{else}}ava{{end}}`,
		`{{if .C}}{{else}}JaVa{{end}}`, `{{if .C}}{{else}}java&#115;{{end}}`, `{{if .C}}{{else}} java{{end}}`, `{{if .C}}{{else}}data:text/html,{{end}}`, `{{if .C}}{{else}}/p?q={{end}}`, `{{if .C}}{{else}}/p/{{end}}`, `{{if .C}}{{else}}x{{end}}`}
	condSites := []string{`<a href="%s{{.X}}">x</a>`, `<script src="%s{{.X}}"></script>`, `<img srcset="%s{{.X}}">`, `<form action='%s{{.X}}'></form>`, `<iframe src="%s{{.X}}"></iframe>`, `<link rel="stylesheet" href="%s{{.X}}">`, `<a href=%s{{.X}}>x</a>`}
	for _, site := range condSites {
		for _, pre := range condPrefixes {
			t := fmt.Sprintf(site, pre)
			for _, cv := range []string{"", "1"} {
				js(t, c02Map("C", cv, "D", "", "X", "script:alert(1)"))
				js(t, c02Map("C", cv, "D", "", "X", "alert(1)"))
				cc(t, c02Map("C", cv, "D", "", "X", mkA+".org/x.js"))
				cc(t, c02Map("C", cv, "D", "", "X", mkA))
			}
		}
	}

	// ------------------------------------------------------------ (7) structured random templates
	nRand := 1500
	if thorough {
		nRand = 40000
	}
	frag := []string{"java", "script", ":", "alert(1)", "JAVA", "Script", "\t", "\n", " ", "&colon;", "&#58;", "&Tab;", "&#106;", "a", "/", "?", "#", "//", "https", "x.example", "%0a", "&", "&amp;", "\x00", "\xff", "İ", "."}
	for i := 0; i < nRand; i++ {
		s := urlSites[rng.Intn(9)]
		n := 1 + rng.Intn(4)
		var val strings.Builder
		var kv []string
		if rng.Intn(4) == 0 {
			val.WriteString(pick([]string{"/x/", "/x?", "#", "https://h.example/", "x", "java", "&#106;ava", "/&#58;", "mailto:"}))
		}
		for k := 0; k < n; k++ {
			name := string(rune('A' + k))
			switch rng.Intn(6) {
			case 0:
				val.WriteString("{{if ." + name + "}}{{." + name + "}}{{end}}")
			case 1:
				val.WriteString("{{with ." + name + "}}{{.}}{{end}}")
			default:
				val.WriteString("{{." + name + "}}")
			}
			if rng.Intn(5) == 0 {
				val.WriteString(pick([]string{":", "/", "&colon;", "?", "&Tab;", "x", "&#58;", "//"}))
			}
			kv = append(kv, name, randFrom(frag, 3))
		}
		q := pick([]string{"dq", "dq", "sq"})
		js(site(s, q, val.String()), c02Map(kv...))
		if i%3 == 0 {
			// the same shape with markers, in a code-loading or code attribute
			cs := pick([]string{"script src", "iframe src", "link href", "div style", "div onclick", "iframe srcdoc", "embed src", "object data", "base href", "frame src"})
			f := strings.Fields(cs)
			var mkv []string
			for k := 0; k < n; k++ {
				mkv = append(mkv, string(rune('A'+k)), pick([]string{mkA, "//" + mkB, mkC + ":", "/" + mkA, ""}))
			}
			ex := ""
			if f[0] == "link" {
				ex = `rel="` + pick(rels) + `"`
			}
			cc(c02Tag(f[0], ex, f[1], q, val.String()), c02Map(mkv...))
		}
	}

	// ------------------------------------------------------------ (8) malformed: invalid UTF-8 and odd bytes as data, odd tag soup around the action
	for _, m := range malformed {
		js(`<a href="{{.}}">x</a>`, c02Str(m+"javascript:alert(1)"))
		js(`<a href="{{.}}">x</a>`, c02Str("java"+m+"script:alert(1)"))
		js(`<a href="{{.A}}{{.B}}">x</a>`, c02Map("A", "java"+m[:1], "B", m[1:]+"script:alert(1)"))
		js(`<img srcset="{{.}}">`, c02Str(m+"javascript:alert(1) 1x"))
		cc(`<script>{{.}}</script>`, c02Str(m+mkA))
		cc(`<div style="{{.}}">`, c02Str(m+mkA))
	}
	soup := []string{`<a href = "{{.}}">`, `<a href	=	'{{.}}'>`, "<a\nhref=\"{{.}}\">", "<a/href=\"{{.}}\">", `<a x="1"href="{{.}}">`, `<a href="{{.}}"x>`, `<A HREF="{{.}}">`, `<a HrEf='{{.}}'>`, `<a href="{{.}}" href="/x">`, `<a href="/x" href="{{.}}">`,
		`<a title="x>" href="{{.}}">`, `<a title='"' href="{{.}}">`, `<a href="{{.}}`, `<a href="{{.}}"`, `<a href="{{.}}">`, `<a href=""{{.}}>`, `<a href="" title="{{.}}">`, `<a href=x title="{{.}}">`, `<a href= title="{{.}}">`,
		`<img src="x"onerror="{{.}}">`, `<img src=x onerror	=	"{{.}}">`, `<img src=x one{{.}}rror="y">`, `<img src=x {{.}}="y">`, `<script
>{{.}}</script>`, `<script/>{{.}}</script>`, `<script x>{{.}}</script x>`, `<script>{{.}}</SCRIPT>`, `<script>a</script >{{.}}`, `<script>a</script/>{{.}}`, `<script>a</script x="y">{{.}}`, `<script>a</scriptx>{{.}}</script>`,
		`<style>a</style >{{.}}`, `<style/>{{.}}</style>`, `<xmp>{{.}}</xmp>`, `<plaintext>{{.}}`, `<noscript><script>{{.}}</script></noscript>`, `<template><script>{{.}}</script></template>`, `<textarea><script>{{.}}</script></textarea>`, `<title><script>{{.}}</script></title>`,
		`<script_>{{.}}</script_>`, `<scriptx>{{.}}</scriptx>`, `<script-x>{{.}}</script-x>`, `<script:x>{{.}}</script:x>`, "<script\x0c>{{.}}</script>", "<script\r>{{.}}</script>", "<script\x00>{{.}}</script>", "<style\x0c>{{.}}</style>"}
	for _, t := range soup {
		cc(t, c02Str(mkA))
		cc(t, c02Str("\" onclick=\""+mkA))
		js(t, c02Str("javascript:alert(1)"))
	}

	return "templates run on the real engine: (0) canonical witnesses of the recorded findings; (1) directed-search seeds; (2) every (element, attribute) pair of the engine's policy tables (element-specific pairs; global attributes x 21 elements, x all listed elements in the thorough tier) and 38 attribute names outside them x {double, single, no quotes} x 7 static prefixes x {one action, two adjacent actions, action/static/action, range over a list, two calls of a helper template, if/else}, all leaves alphanumeric markers or markers decorated as origins; (3) element bodies of every listed element and of script/style/raw-text/RCDATA/foreign/unknown elements, 100 static code shapes (script strings and comments, style bodies, HTML comments, bogus comments, handlers, style, srcdoc, code-loading URL attributes with static prefixes incl. entity-encoded separators) x hostile leaves; (4) link rel x 33 rel values (case, order, white space of every kind, entities, duplicates) x 5 origins; (5) helper templates reused after different static prefixes and context-opening helpers called twice (D4, D1 shapes); (6) javascript: in case foldings (all 1024 in the thorough tier), with TAB/LF/CR, leading spaces/controls, entity spellings, non-ASCII runes that lower-case to ASCII, invalid UTF-8: as one value on 21 attribute sites and split at EVERY position across two adjacent actions, across loop iterations, across two calls of a helper template, byte per iteration, with a static middle piece, after validated and after invalid static prefixes, scheme + :// patterns, srcset candidates assembled from pieces; (6b) attribute and element names split over several text nodes by comments / empty control structures (23 name pairs x 6 separators x 7 elements x 3 quotings), conditional element and attribute names followed by further (empty) conditionals and nested conditionals (25 shapes x 4 truth assignments), conditional static URL prefixes with the scheme on the else side (19 prefixes x 7 sites); (7) structured random multi-action URL attribute values with if/with and static separators; (8) malformed UTF-8 data and tag soup around the action. non-trivial = the template was accepted and the output has a URL-valued attribute (jsurl) or a marker reached the output (codectx)", false, extra
}
