// Command run generates cases for one property, executes the implementation
// (/repo, built with -tags verif) on them and writes a case file for the OCaml
// driver (extracted Coq model + specification oracles).
package main

import (
	"bufio"
	"encoding/hex"
	"encoding/json"
	"flag"
	"fmt"
	"io/ioutil"
	"math/rand"
	"os"
	"regexp"
	"sort"
	"strings"

	"verifharness/rxsrc"
)

var (
	rng        *rand.Rand
	extraSeeds []string // directed-search inputs handed over by the check driver
	tier       string
)

type caseWriter struct {
	w       *bufio.Writer
	n       int
	streams map[string]int
	samples []map[string]string
	seen    map[string]bool
	dups    int
	capture *[]string // when set, every case written (duplicates included) is also appended here
}

func hx(s string) string {
	if s == "" {
		return "-"
	}
	return hex.EncodeToString([]byte(s))
}

func unhx(s string) string {
	if s == "-" {
		return ""
	}
	b, err := hex.DecodeString(s)
	if err != nil {
		panic(err)
	}
	return string(b)
}

// Case writes one case; fields are already encoded. Duplicate cases are dropped.
func (c *caseWriter) Case(stream string, fields ...string) {
	key := stream + "\t" + strings.Join(fields, "\t")
	if c.capture != nil {
		*c.capture = append(*c.capture, key)
	}
	if c.seen[key] {
		c.dups++
		return
	}
	c.seen[key] = true
	c.n++
	c.streams[stream]++
	id := fmt.Sprintf("%s#%d", stream, c.n)
	fmt.Fprintf(c.w, "%s\t%s\t%s\n", stream, id, strings.Join(fields, "\t"))
	if c.streams[stream] <= 2 || (c.n%997 == 0 && len(c.samples) < 12) {
		c.samples = append(c.samples, map[string]string{"id": id, "case": key})
	}
}

type stats struct {
	Evaluations int                 `json:"evaluations"`
	Streams     map[string]int      `json:"streams"`
	Samples     []map[string]string `json:"samples"`
	Exhaustive  bool                `json:"exhaustive"`
	Rule        string              `json:"rule"`
	Duplicates  int                 `json:"duplicates_dropped"`
	Extra       map[string]int      `json:"extra,omitempty"`
}

var compiled = map[string]*regexp.Regexp{}

func init() {
	reg("rx", 2, func(c *caseWriter, in []string) { rxExec(c, in[0], in[1]) })
}

func rxCase(c *caseWriter, name, subject string) { emit(c, "rx", name, subject) }

// rxExec records what Go's regexp does with the pattern the code really uses.
func rxExec(c *caseWriter, name, subject string) {
	re := compiled[name]
	if re == nil {
		src, ok := allRegexps()[name]
		if !ok {
			// the pattern is gone from the source: nothing to compare against
			c.Case("rx", hx(name), hx(subject), "gone")
			return
		}
		re = regexp.MustCompile(src)
		compiled[name] = re
	}
	b := "0"
	if re.MatchString(subject) {
		b = "1"
	}
	c.Case("rx", hx(name), hx(subject), b)
}

func allRegexps() map[string]string { return rxsrc.Sources(repoRoot()) }

// product enumerates all sequences of 0..maxLen symbols of alphabet.
func product(alphabet []string, maxLen int, f func(string)) {
	var rec func(prefix string, depth int)
	rec = func(prefix string, depth int) {
		f(prefix)
		if depth == maxLen {
			return
		}
		for _, a := range alphabet {
			rec(prefix+a, depth+1)
		}
	}
	rec("", 0)
}

func pick(l []string) string { return l[rng.Intn(len(l))] }

func randFrom(alphabet []string, maxLen int) string {
	n := rng.Intn(maxLen + 1)
	var b strings.Builder
	for i := 0; i < n; i++ {
		b.WriteString(pick(alphabet))
	}
	return b.String()
}

// malformed UTF-8 shapes
var malformed = []string{
	"\x80", "\xbf", "\xc0\xaf", "\xc1\xbf", "\xc2", "\xe0\x80\x80", "\xe0\xa0", "\xed\xa0\x80", "\xed\xbf\xbf",
	"\xf0\x80\x80\x80", "\xf0\x90\x80", "\xf4\x90\x80\x80", "\xf5\x80\x80\x80", "\xff", "\xfe", "\xef\xbf", "\xf8\x88\x80\x80\x80",
}

// mutations of a directed-search seed: the seed, with each single byte deleted, and with common neighbours attached
func seedVariants(s string) []string {
	out := []string{s}
	for i := 0; i < len(s) && i < 16; i++ {
		out = append(out, s[:i]+s[i+1:])
	}
	for _, a := range []string{"a", "\n", " ", "-", "x1"} {
		out = append(out, a+s, s+a)
	}
	return out
}

// repoRoot is the tree under verification: /repo, or $VERIF_REPO.
func repoRoot() string {
	if d := os.Getenv("VERIF_REPO"); d != "" {
		return d
	}
	return "/repo"
}

type propFunc func(c *caseWriter) (rule string, exhaustive bool, extra map[string]int)

// A stream executes the implementation on decoded inputs and records the case.
type streamDef struct {
	nin  int
	exec func(c *caseWriter, in []string)
}

var streams = map[string]streamDef{}

func reg(name string, nin int, exec func(c *caseWriter, in []string)) {
	streams[name] = streamDef{nin, exec}
}

// emit runs stream name on the given raw inputs.
func emit(c *caseWriter, name string, in ...string) {
	d, ok := streams[name]
	if !ok || d.nin != len(in) {
		panic("bad stream use: " + name)
	}
	// a panic that escapes a stream's exec function (the functions under test are total) becomes a case of
	// the pseudo stream implpanic, which the driver reports as a specification failure with this input
	run := func() {
		defer func() {
			if r := recover(); r != nil {
				if name == "implpanic" {
					panic(r)
				}
				enc := []string{name}
				for _, x := range in {
					enc = append(enc, hx(x))
				}
				msg := fmt.Sprint(r)
				if len(msg) > 160 {
					msg = msg[:160]
				}
				c.Case("implpanic", hx(strings.Join(enc, ",")), hx(msg))
			}
		}()
		d.exec(c, in)
	}
	if pureStreams[name] && !inReplay && c.capture == nil && len(emitLog) < emitLogCap {
		var keys []string
		c.capture = &keys
		run()
		c.capture = nil
		emitLog = append(emitLog, emitRec{name, append([]string(nil), in...), strings.Join(keys, "\n")})
		return
	}
	run()
}

func init() {
	// implpanic <stream,hexinput,...>: re-runs the stream on the inputs (replay of a recorded panic)
	reg("implpanic", 1, func(c *caseWriter, in []string) {
		parts := strings.Split(in[0], ",")
		d, ok := streams[parts[0]]
		if !ok || d.nin != len(parts)-1 {
			return
		}
		var ins []string
		for _, p := range parts[1:] {
			ins = append(ins, unhx(p))
		}
		func() {
			defer func() {
				if r := recover(); r != nil {
					msg := fmt.Sprint(r)
					if len(msg) > 160 {
						msg = msg[:160]
					}
					c.Case("implpanic", hx(in[0]), hx(msg))
				}
			}()
			d.exec(c, ins)
		}()
	})
}

// guard runs f, mapping a panic to outcome "panic".
func guard(f func() (string, string)) (outcome, out string) {
	defer func() {
		if r := recover(); r != nil {
			outcome, out = "panic", ""
		}
	}()
	return f()
}

var props = map[string]propFunc{}

func main() {
	prop := flag.String("prop", "", "property id")
	flag.StringVar(&tier, "tier", "quick", "quick|thorough")
	seed := flag.Int64("seed", 1, "PRNG seed")
	out := flag.String("out", "", "case file to write")
	statsOut := flag.String("stats", "", "stats JSON to write")
	seedsFile := flag.String("seeds", "", "file with one hex string per line: directed-search inputs")
	replay := flag.String("replay", "", "file with lines <stream> TAB <hex input>...: re-execute exactly these cases")
	flag.Parse()
	if *replay != "" {
		b, err := ioutil.ReadFile(*replay)
		if err != nil {
			panic(err)
		}
		fh, err := os.Create(*out)
		if err != nil {
			panic(err)
		}
		c := &caseWriter{w: bufio.NewWriterSize(fh, 1<<20), streams: map[string]int{}, seen: map[string]bool{}}
		for _, l := range strings.Split(string(b), "\n") {
			if strings.TrimSpace(l) == "" {
				continue
			}
			f := strings.Split(l, "\t")
			d, ok := streams[f[0]]
			if !ok || len(f) < 1+d.nin {
				fmt.Fprintf(os.Stderr, "cannot replay %q\n", l)
				os.Exit(2)
			}
			var in []string
			for _, x := range f[1 : 1+d.nin] {
				in = append(in, unhx(x))
			}
			d.exec(c, in)
		}
		c.w.Flush()
		fh.Close()
		return
	}
	f, ok := props[*prop]
	if !ok {
		var names []string
		for k := range props {
			names = append(names, k)
		}
		sort.Strings(names)
		fmt.Fprintf(os.Stderr, "unknown property %q (have %v)\n", *prop, names)
		os.Exit(2)
	}
	rng = rand.New(rand.NewSource(*seed))
	if *seedsFile != "" {
		b, err := ioutil.ReadFile(*seedsFile)
		if err != nil {
			panic(err)
		}
		for _, l := range strings.Split(string(b), "\n") {
			l = strings.TrimSpace(l)
			if l != "" {
				extraSeeds = append(extraSeeds, unhx(l))
			}
		}
	}
	fh, err := os.Create(*out)
	if err != nil {
		panic(err)
	}
	c := &caseWriter{w: bufio.NewWriterSize(fh, 1<<20), streams: map[string]int{}, seen: map[string]bool{}}
	rule, exhaustive, extra := f(c)
	if len(emitLog) > 0 {
		replayCheck(c)
		rule += fmt.Sprintf("; re-execution check: the %d cases of the pure-function streams executed again in the same order, in reverse order and from 32 goroutines at once (shuffled), every written line compared", len(emitLog))
	}
	c.w.Flush()
	fh.Close()
	st := stats{Evaluations: c.n, Streams: c.streams, Samples: c.samples, Exhaustive: exhaustive, Rule: rule, Duplicates: c.dups, Extra: extra}
	js, _ := json.MarshalIndent(st, "", " ")
	if *statsOut != "" {
		ioutil.WriteFile(*statsOut, js, 0o644)
	} else {
		os.Stdout.Write(js)
	}
}

// longBoundaryInputs returns strings in which an interesting unit starts 0-3 bytes before each
// offset 2^k (k = 4..13) and 2^k +- 1, after ASCII padding, followed by a short tail.
func longBoundaryInputs() []string {
	units := []string{"\u00e9", "\u20ac", "\U0001f600", "\ufdd0", "\U0001fffe", "\x00", "\u0085", "<", "&amp;", "\xff", "\xed\xa0\x80", "\xf0\x9f"}
	var out []string
	for k := 4; k <= 13; k++ {
		for _, e := range []int{-1, 0, 1} {
			off := (1 << uint(k)) + e
			for d := 0; d <= 3; d++ {
				if off-d < 0 {
					continue
				}
				u := units[(k*7+d*3+e+1)%len(units)]
				u2 := units[(k*5+d+e+4)%len(units)]
				out = append(out, strings.Repeat("a", off-d)+u+"b<"+u2)
				if k >= 7 && k <= 10 && e == 0 {
					for _, w := range units {
						out = append(out, strings.Repeat("a", off-d)+w+"z")
					}
				}
			}
		}
	}
	for _, u := range units {
		out = append(out, strings.Repeat(u, 300), "x"+strings.Repeat(u, 129))
	}
	return out
}
