//go:build c10 || allprops

package main

import (
	"fmt"
	"html"
	"unicode/utf8"

	"github.com/google/safehtml"
)

func init() {
	props["C10"] = runC10
	reg("html_escaped", 1, func(c *caseWriter, in []string) {
		outcome, o := guard(func() (string, string) { return "ok", safehtml.HTMLEscaped(in[0]).String() })
		if outcome != "ok" {
			// HTMLEscaped is total: a panic is reported as an output that no specification clause accepts
			c.Case("html_escaped", hx(in[0]), hx("<panic>"), hx("<panic>"))
			return
		}
		c.Case("html_escaped", hx(in[0]), hx(o), hx(html.UnescapeString(o)))
	})
	reg("html_concat", 3, func(c *caseWriter, in []string) {
		var hs []safehtml.HTML
		fields := []string{"3"}
		for _, s := range in {
			hs = append(hs, safehtml.HTMLEscaped(s))
			fields = append(fields, hx(s))
		}
		// the caller's slice is passed as the variadic argument, twice: the result must be the plain
		// concatenation both times and the slice must not be written to
		before := append([]safehtml.HTML(nil), hs...)
		first := safehtml.HTMLConcat(hs...).String()
		second := safehtml.HTMLConcat(hs...).String()
		kept := "1"
		for i := range hs {
			if hs[i].String() != before[i].String() {
				kept = "0"
			}
		}
		fields = append(fields, hx(first), hx(second), kept)
		c.Case("html_concat", fields...)
	})
	// html_concat_raw: the pieces are HTML values made by an unchecked conversion (any bytes): HTMLConcat is
	// the plain concatenation of its arguments, whatever they contain
	reg("html_concat_raw", 3, func(c *caseWriter, in []string) {
		var hs []safehtml.HTML
		fields := []string{"3"}
		for _, s := range in {
			hs = append(hs, safehtml.VerifRawHTML(s))
			fields = append(fields, hx(s))
		}
		first := safehtml.HTMLConcat(hs...).String()
		second := safehtml.HTMLConcat(hs...).String()
		fields = append(fields, hx(first), hx(second))
		c.Case("html_concat_raw", fields...)
	})
}

func runC10(c *caseWriter) (string, bool, map[string]int) {
	esc := func(s string) {
		emit(c, "html_escaped", s)
		emit(c, "m_coerce", s)
	}
	for _, s := range extraSeeds {
		for _, v := range seedVariants(s) {
			esc(v)
			esc("<" + v + "&")
		}
	}
	// all 1- and 2-byte strings
	for a := 0; a < 256; a++ {
		esc(string([]byte{byte(a)}))
		for b := 0; b < 256; b++ {
			esc(string([]byte{byte(a), byte(b)}))
		}
	}
	// every boundary of the range table +-1, every plane's last two code points, surrogate encodings
	boundaries := []rune{0, 8, 9, 10, 11, 12, 13, 14, 31, 32, 127, 128, 159, 160, 0xd7ff, 0xe000, 0xfdcf, 0xfdd0, 0xfdef, 0xfdf0, 0xfffd, 0xfffe, 0xffff, 0x10000}
	for p := rune(0); p <= 16; p++ {
		boundaries = append(boundaries, p*0x10000+0xfffd, p*0x10000+0xfffe, p*0x10000+0xffff, p*0x10000+0x10000-0x10000)
	}
	for _, r := range boundaries {
		for d := rune(-1); d <= 1; d++ {
			x := r + d
			if x < 0 || x > 0x10ffff {
				continue
			}
			buf := make([]byte, 4)
			n := utf8.EncodeRune(buf, x)
			esc("a" + string(buf[:n]) + "<")
		}
	}
	step := rune(997)
	if tier == "thorough" {
		step = 1
	}
	for r := rune(0); r <= 0x10ffff; r += step {
		esc(string(r))
	}
	// raw surrogate and overlong encodings, truncated sequences at start / middle / end
	for _, m := range malformed {
		esc(m)
		esc(m + "a")
		esc("a" + m)
		esc("a" + m + "<b>")
		esc(m + m)
	}
	// long inputs: a multi-byte rune, a control character, a special character or a malformed
	// sequence straddling every offset around the powers of two up to 8192 (buffers, chunks and
	// block-wise loops have their edges there), and long runs of each
	for _, v := range longBoundaryInputs() {
		esc(v)
	}
	// random mixes
	alphabet := []string{"<", ">", "\"", "'", "&", "&amp;", "&#", "a", " ", "\x00", "\x7f", "\u0085", "﷐", "\U0001fffe", "\xff", "\xed\xa0\x80", "é", "\U0010ffff", "\t", "\n"}
	n := 1500
	if tier == "thorough" {
		n = 100000
	}
	for i := 0; i < n; i++ {
		esc(randFrom(alphabet, 24))
	}
	for i := 0; i < 200; i++ {
		emit(c, "html_concat", randFrom(alphabet, 6), randFrom(alphabet, 6), randFrom(alphabet, 6))
	}
	// raw pieces: a multi-byte character split over two pieces, non-characters, controls, markup
	for _, tr := range [][3]string{{"caf\xc3", "\xa9", "!"}, {"\xf0\x9f", "\x98\x80", ""}, {"a\x00", "\ufdd0", "\U0001fffe"}, {"<b>", "x", "</b>"}, {"\xff", "", "\xfe"}, {"\xe2\x82", "\xac", "\xe2"},
		{"&", "amp;", ""}, {"\x7f", "\u0085", "\r\n"}, {"\xed\xa0", "\x80", "z"}} {
		emit(c, "html_concat_raw", tr[0], tr[1], tr[2])
	}
	for i := 0; i < 100; i++ {
		emit(c, "html_concat_raw", randFrom(alphabet, 4), randFrom(alphabet, 4), randFrom(alphabet, 4))
	}
	// empty pieces at every position
	for _, tr := range [][3]string{{"", "a", "b"}, {"a", "", "b"}, {"a", "b", ""}, {"", "", "a"}, {"", "a", ""}, {"a", "", ""}, {"", "", ""}, {"<b>", "", "x"}, {"&", "", "<"}} {
		emit(c, "html_concat", tr[0], tr[1], tr[2])
	}
	return fmt.Sprintf("all 1- and 2-byte strings (65,792), every code point with stride %d, every range-table boundary +-1 in all 17 planes, malformed UTF-8 shapes at start/middle/end, random mixes up to 24 symbols, 200 concatenations; non-trivial = the output differs from the input", step), true, nil
}
