//go:build c01 || allprops

package main

import (
	"fmt"
	"regexp"
	"sort"
	"strings"

	"github.com/google/safehtml/template"
)

// C01: template markup structure is never altered by untrusted data.
//
// Streams
//   struct     <template text> <name> <data wire A> <data wire B>
//              A = the inert placeholder environment (every untrusted leaf is "zq"), B = the same shape
//              with hostile untrusted leaves (same booleans, same list lengths, identical safe-typed
//              leaves).  The real engine is run on both; recorded: outcome + bytes of both runs and the
//              parse trees of the template set (for the finding classifiers).
//   placement  <template text> <name> <data wire>
//              every untrusted leaf is a distinct alphanumeric marker zQ<i>x; recorded: outcome, bytes,
//              the spans (offset:length) at which markers occur in the output, parse trees.
// The oracle (coq/spec/StructureSpec.v, evaluated by ocaml/drv_c01.ml on these real outputs) is the
// WHATWG tokenizer specification: equal skeletons, no comment tokens, final state data; marker bytes
// consumed only as text, RCDATA text or quoted attribute value.

var c01Marker = regexp.MustCompile(`zQ[0-9]+x`)

func init() {
	props["C01"] = runC01
	reg("struct", 4, func(c *caseWriter, in []string) {
		ra := runTemplate(in[0], in[1], dataFromWire(in[2]), false)
		rb := runTemplate(in[0], in[1], dataFromWire(in[3]), false)
		c.Case("struct", hx(in[0]), hx(in[1]), hx(in[2]), hx(in[3]), ra.outcome, hx(ra.out), rb.outcome, hx(rb.out), parsedWire("main", in[0]), c01Author(in[0], in[1]))
	})
	reg("placement", 3, func(c *caseWriter, in []string) {
		r := runTemplate(in[0], in[1], dataFromWire(in[2]), false)
		var sp []string
		for _, m := range c01Marker.FindAllStringIndex(r.out, -1) {
			sp = append(sp, fmt.Sprintf("%d:%d", m[0], m[1]-m[0]))
		}
		spans := "-"
		if len(sp) > 0 {
			spans = strings.Join(sp, ",")
		}
		c.Case("placement", hx(in[0]), hx(in[1]), hx(in[2]), r.outcome, hx(r.out), spans, parsedWire("main", in[0]))
	})
}

// c01Author returns (in hex) the author's own markup of a template without control structures: the text
// with every action on an untrusted leaf replaced by the inert placeholder and every template comment
// removed; "-" when the template has anything else (control structures, safe-typed leaves, pipelines).
var c01ActionRE = regexp.MustCompile(`\{\{[^{}]*\}\}`)
var c01LeafRE = regexp.MustCompile(`^\{\{ *\.(A|B|U|S) *\}\}$`)
var c01CommentRE = regexp.MustCompile(`^\{\{/\*[^{}]*\*/\}\}$`)

// markup the engine deliberately turns into text, or that a tokenizer reads as a bogus comment / leaves
// unfinished: a tag opener followed by an action or by something that cannot start a tag name, markup
// declarations other than comments and DOCTYPE, processing instructions, an opener at the very end
// ... and comments that a tokenizer closes abruptly or in the legacy way (<!-->, <!--->, --!>): the engine closes a
// comment at --> only, so it elides MORE static text than the tokenizer takes for the comment (never less: no data is
// involved and data inside what the engine takes for a comment is dropped) - thorough-tier case struct#253540
var c01OddMarkupRE = regexp.MustCompile(`<\{\{|</\{\{|</[^A-Za-z]|</$|<![^-dD]|<!$|<!-[^-]|<!-$|<\?|<$|<[^A-Za-z/!?]|<!---?>|--!>`)

// c01OddDecl: a markup declaration opener that is neither a comment opener nor a complete (case-insensitive) DOCTYPE
// keyword - the engine turns it into text (it escapes the <), a tokenizer reads a bogus comment (thorough-tier case
// struct#532075: the static template <!docty)
func c01OddDecl(s string) bool {
	for i := 0; i+1 < len(s); i++ {
		if s[i] == '<' && s[i+1] == '!' {
			rest := s[i+2:]
			if strings.HasPrefix(rest, "--") {
				continue
			}
			if len(rest) >= 7 && strings.EqualFold(rest[:7], "doctype") {
				continue
			}
			return true
		}
	}
	return false
}

func c01Author(text, name string) string {
	if name != "" || !strings.Contains(text, "{{") {
		if name != "" {
			return "-"
		}
	}
	ok := true
	out := c01ActionRE.ReplaceAllStringFunc(text, func(a string) string {
		switch {
		case c01LeafRE.MatchString(a):
			return "zq"
		case c01CommentRE.MatchString(a):
			return ""
		}
		ok = false
		return ""
	})
	if !ok || strings.Contains(out, "{{") || strings.Contains(out, "}}") || c01OddMarkupRE.MatchString(text) || c01OddMarkupRE.MatchString(out) || c01OddDecl(text) || c01OddDecl(out) {
		return "-"
	}
	return hx(out)
}

// ---------------------------------------------------------------- data environments

// untrusted leaves in wire order: A B U S L0 L1 (L has c01NL entries); everything else is identical in
// every environment of a template: T F booleans, E empty list, N nil, and the safe-typed leaves.
type c01Shape struct {
	T  bool
	nL int
}

const c01SafeLeaves = "H=safe:html:3c623e683c2f623e,J=safe:script:616c6572742831293b,K=safe:stylesheet:707b636f6c6f723a7265647d," +
	"R=safe:tru:2f722e6a73,W=safe:url:68747470733a2f2f612e6578616d706c652f77,I=safe:identifier:696431,Y=safe:style:636f6c6f723a7265643b"

func c01Wire(sh c01Shape, leaf func(i int) string) string {
	var l []string
	for i := 0; i < sh.nL; i++ {
		l = append(l, leaf(4+i))
	}
	t := "false"
	if sh.T {
		t = "true"
	}
	return "map:A=" + leaf(0) + ",B=" + leaf(1) + ",U=" + leaf(2) + ",S=" + leaf(3) + ",L=list:" + strings.Join(l, "|") +
		",E=list:,T=" + t + ",F=false,N=nil," + c01SafeLeaves
}

func c01Inert(sh c01Shape) string {
	return c01Wire(sh, func(int) string { return "str:" + hx("zq") })
}

func c01Markers(sh c01Shape) string {
	return c01Wire(sh, func(i int) string { return "str:" + hx(fmt.Sprintf("zQ%dx", i+1)) })
}

// the carriers an untrusted byte string can arrive in
func c01Carrier(k int, s string) string {
	switch k % 8 {
	case 5:
		return "stringer:" + hx(s)
	case 6:
		return "ptr:str:" + hx(s)
	case 7:
		return "err:" + hx(s)
	}
	return "str:" + hx(s)
}

// one string that tries everything at once (never empty, so truthiness is kept)
const c01Killer = "zq\"'<>&` =x/ y=1 onmouseover=alert(1) </script></title></textarea></style>--><!--<script>\x00\xff\r\n\t\f"

var c01Hostile = func() []string {
	l := []string{"\"", "'", "<", ">", "&", "&lt", "&#", "&#x3c", "&#x3c;", "&amp;", "&quot", "&NotAnEntity", "</script", "</script>", "</SCRIPT >", "</title>", "</textarea>", "</style>",
		"-->", "--!>", "--", "<!--", "<!-->", "<!", "<?", "</", "</>", "<a", "<b>", "</b><i>", "\x00", "a\x00b", " ", "\t", "\n", "\f", "\r", "\r\n", " \t\n\f\r", "javascript:", "javascript:alert(1)",
		"`", "=", "==", "/", "/>", " x=y", " x=y ", "onmouseover=alert(1)", "x onmouseover=alert(1)", "\" onmouseover=\"alert(1)", "' onmouseover='alert(1)", "\"><script>alert(1)</script>",
		"'><img src=x onerror=alert(1)>", "><script>alert(1)</script>", "]]>", "<![CDATA[", "<plaintext>", "<!DOCTYPE x>", "${x}", "`${", "\\", "\\\"", "%22%3e", "&#34;&#39;", "{{.A}}", "{{", "}}",
		"\u2028", "\ufeff", "\u00a0", strings.Repeat("<", 40), strings.Repeat("\"'", 20), c01Killer}
	l = append(l, malformed...)
	return l
}()

// ---------------------------------------------------------------- template generator

type c01Policy struct {
	elems     []string            // elements whose content may hold an action
	void      []string            // allowed void elements
	attrsOf   map[string][]string // element -> attributes with a sanitization context
	ctxName   map[int]string
	p         template.VerifPolicy
	allAttrs  []string
	contentOf map[string]string // element -> context name of its content
}

func c01LoadPolicy() *c01Policy {
	p := template.VerifPolicyTables()
	q := &c01Policy{attrsOf: map[string][]string{}, ctxName: p.ContextNames, p: p, contentOf: map[string]string{}}
	for e, sc := range p.ElementContent {
		q.elems = append(q.elems, e)
		q.contentOf[e] = p.ContextNames[sc]
	}
	for e := range p.AllowedVoid {
		q.void = append(q.void, e)
	}
	sort.Strings(q.elems)
	sort.Strings(q.void)
	var globals []string
	for a := range p.GlobalAttr {
		globals = append(globals, a)
	}
	sort.Strings(globals)
	seen := map[string]bool{}
	for _, a := range globals {
		seen[a] = true
	}
	for a := range p.ElementSpecific {
		seen[a] = true
	}
	for a := range seen {
		q.allAttrs = append(q.allAttrs, a)
	}
	sort.Strings(q.allAttrs)
	for _, e := range append(append([]string{}, q.elems...), q.void...) {
		l := append([]string{}, globals...)
		for a, m := range p.ElementSpecific {
			if _, ok := m[e]; ok {
				l = append(l, a)
			}
		}
		sort.Strings(l)
		q.attrsOf[e] = l
	}
	return q
}

func (q *c01Policy) attrCtx(e, a string) string {
	sc, err := template.VerifSanitizationContextForAttrVal(strings.ToLower(e), strings.ToLower(a), "")
	if err != nil {
		return ""
	}
	return q.ctxName[sc]
}

var (
	c01Special   = []string{"script", "style", "textarea", "title"}
	c01RawText   = []string{"xmp", "iframe", "noembed", "noframes", "noscript", "plaintext"}
	c01Malformed = []string{"a_b", "a-b:c", "é", "bé", "a.b", "h7", "a1", "b/", "custom-el", "unknownelement", "svg", "math", "object", "embed", "template", "select", "table"}
	c01OddAttrs  = []string{"onclick", "onmouseover", "ONLOAD", "foo", "data-x", "DATA-Y", "xlink:href", "xml:lang", "TITLE", "Href", "aria-label", "a_b", "é", "x:y", "style", "srcdoc", "is", "nonce"}
	c01WS        = []string{" ", " ", " ", "\t", "\n", "\f", "\r", "\r\n", "  ", " \t", " ", "\t", "\n", "\v", "\u00a0", "\u0085", "\u2028", "\u3000", "\x1c", " \u00a0", "\u00a0 "}
	// characters that Unicode (or a careless helper) calls white space and HTML does not
	c01NotHTMLWS = []string{"\v", "\u00a0", "\u0085", "\u1680", "\u2000", "\u2028", "\u2029", "\u202f", "\u3000", "\x1c", "\x1f", "\x00", "\ufeff"}
	c01Words     = []string{"x", "k", "text", "Hello, World", "1 + 1 = 2", "a b", "café", "&amp;", "&lt;", "&#34;", "&copy", "&", "&#", "a=b", "`", "'", "\"", "-", "--", "]]>", "\x00", "\xff", "\xc3"}
	c01Stray     = []string{"<", "</", "<!", "<?", "< ", "<1", "</ ", "<>", "</>", "<=", "<é", "<!x>", "<?php ?>", "<![CDATA[c]]>", ">", "/>"}
	c01JS        = []string{"var x = 1;", "f(\"a\", 'b');", "if (a<b) {}", "x = \"</scr\" + \"ipt>\";", "var t = `a${1}`;", "// c\n", "/* c */", "x = \"<!--\";", "<!--", "-->", "<!--<script>", "x=`", "}", "${"}
	c01CSS       = []string{"p{color:red}", "a>b{}", "/* c */", "@import 'x';", "<!--", "-->"}
	c01Doctypes  = []string{"<!DOCTYPE html>", "<!doctype html>", "<!DocType html PUBLIC \"-//W3C//DTD HTML 4.01//EN\">", "<!DOCTYPE>", "<!DOCTYPE html SYSTEM 'about:legacy-compat'>"}
	c01Comments  = []string{"<!-- c -->", "<!---->", "<!-- a -- b -->", "<!--[if IE]>x<![endif]-->", "<!-- <b> -->", "<!--\n-->", "<!-->", "<!--->", "<!-- c --!>", "<!-- <!-- n -->"}
	c01Untrusted = []string{".A", ".B", ".U", ".S", ".A", ".B"}
)

// sets of templates that share helpers: members that are accepted, members that are refused only at
// their end (after the helper has been analysed), helpers called from several contexts
var c01Sets = []string{
	`{{define "h"}}<b>{{.A}}</b>{{end}}{{define "good"}}<p>{{template "h" .}}</p>{{end}}{{define "bad"}}<p>{{template "h" .}}</p><a href="{{end}}{{template "good" .}}`,
	`{{define "h"}}{{.A}}{{end}}{{define "good"}}<a title="{{template "h" .}}">k</a>{{end}}{{define "bad"}}<a title="{{template "h" .}}">k</a><i title='{{end}}x{{template "good" .}}`,
	`{{define "h"}}{{.A}}{{end}}{{define "good"}}<p>{{template "h" .}}</p>{{end}}{{define "bad"}}{{template "h" .}}{{if .T}}<a href="{{else}}<b>{{end}}{{end}}<i>{{template "h" .}}</i>`,
	`{{define "h"}}{{.A}}{{end}}{{define "good"}}<textarea>{{template "h" .}}</textarea>{{end}}{{define "bad"}}<textarea>{{template "h" .}}{{end}}ok {{.B}}`,
	`{{define "h"}}{{.A}}{{end}}{{define "good"}}<a href="/p?q={{template "h" .}}">k</a>{{end}}{{define "bad"}}<a href="/p?q={{template "h" .}}">k</a><!--{{end}}<p>{{.B}}</p>`,
	`{{define "h"}}{{.A}}{{end}}{{define "k"}}<i>{{.B}}</i>{{end}}{{define "g1"}}<p>{{template "h" .}}{{template "k" .}}</p>{{end}}{{define "g2"}}<b title="{{template "h" .}}">{{template "k" .}}</b>{{end}}{{define "bad"}}{{template "g1" .}}<script>{{end}}{{template "g2" .}}`,
	`{{define "h"}}<li>{{.A}}</li>{{end}}{{define "good"}}<ul>{{range .L}}{{template "h" $}}{{end}}</ul>{{end}}{{define "bad"}}<ul>{{template "h" .}}</ul><style>{{end}}{{template "good" .}}`,
	`{{define "h"}}{{.A}}{{end}}{{define "good"}}<p>{{template "h" .}}</p>{{end}}{{define "bad"}}<p>{{template "h" .}}</p>{{template "nope" .}}{{end}}{{template "good" .}}`,
	`{{define "h"}}{{.A}}{{end}}{{define "good"}}<p>{{template "h" .}}</p>{{end}}{{define "bad"}}<p>{{template "h" .}}</p><a href={{.B}}>{{end}}{{template "good" .}}`,
	`{{define "h"}}{{with .A}}{{.}}{{end}}{{end}}{{define "a"}}<p>{{template "h" .}}</p>{{end}}{{define "b"}}<q cite="{{template "h" .}}">{{template "a" .}}</q>{{end}}{{define "bad"}}{{template "b" .}}<title>{{end}}{{template "a" .}}`,
}

type c01Gen struct {
	q        *c01Policy
	b        strings.Builder
	anywhere int  // remaining insertions at arbitrary syntactic positions
	dot      bool // inside range/with over untrusted data: {{.}} is an untrusted leaf
	depth    int
	defs     map[string]string
	weird    bool // lexical variants: odd white space, upper case, malformed names
}

func (g *c01Gen) w(s string) { g.b.WriteString(s) }

func (g *c01Gen) ws() string {
	if g.weird {
		return pick(c01WS)
	}
	return " "
}

func c01Case(s string, weird bool) string {
	if !weird {
		return s
	}
	switch rng.Intn(4) {
	case 0:
		return strings.ToUpper(s)
	case 1:
		if len(s) > 1 {
			return strings.ToUpper(s[:1]) + s[1:]
		}
	}
	return s
}

// an untrusted reference valid here
func (g *c01Gen) ref() string {
	if g.dot && rng.Intn(2) == 0 {
		return "."
	}
	return pick(c01Untrusted)
}

func (g *c01Gen) action(ref string) string {
	switch rng.Intn(14) {
	case 0:
		return "{{ " + ref + " }}"
	case 1:
		return "{{- " + ref + " -}}"
	case 2:
		return "{{" + ref + " | print}}"
	case 3:
		return "{{print " + ref + "}}"
	case 4:
		return "{{" + ref + " | html}}"
	case 5:
		return "{{$v := " + ref + "}}{{$v}}"
	}
	return "{{" + ref + "}}"
}

// helper templates: name -> body
var c01Helpers = map[string]string{
	"h":     "{{.}}",
	"hi":    "<i>{{.}}</i>",
	"ha":    "{{.A}}",
	"attr":  "title=\"{{.}}\"",
	"open":  "<b ",
	"opena": "<a href=\"",
	"openq": "<b title=\"",
	"close": "\">",
	"empty": "",
	"txt":   "plain",
}

func (g *c01Gen) call(name, arg string) string {
	g.defs[name] = c01Helpers[name]
	if arg == "" {
		return "{{template \"" + name + "\"}}"
	}
	return "{{template \"" + name + "\" " + arg + "}}"
}

// insertion at an arbitrary syntactic position (most of these make the engine reject the template)
func (g *c01Gen) slot() {
	if g.anywhere <= 0 || rng.Intn(4) != 0 {
		return
	}
	g.anywhere--
	switch rng.Intn(11) {
	case 0, 1, 2:
		g.w(g.action(g.ref()))
	case 3:
		g.w("{{if .T}}" + pick([]string{"x", " ", "\"", "'", ">", "=", "a=\"b\"", "{{.A}}"}) + "{{end}}")
	case 4:
		g.w("{{if .T}}" + pick([]string{"x", " y", "\""}) + "{{else}}" + pick([]string{"w", " ", "'"}) + "{{end}}")
	case 5:
		g.w("{{range .L}}" + pick([]string{"{{.}}", " {{.}}", "x", "{{.}}=\"1\" "}) + "{{end}}")
	case 6:
		g.w("{{with .A}}" + pick([]string{"{{.}}", "x", " {{.}} "}) + "{{end}}")
	case 7:
		g.w(g.call(pick([]string{"h", "hi", "ha", "attr", "open", "opena", "openq", "close", "empty", "txt"}), pick([]string{".", ".A", ""})))
	case 8:
		g.w("{{block \"blk" + fmt.Sprint(rng.Intn(3)) + "\" .}}" + pick([]string{"{{.A}}", "d", "<i>{{.B}}</i>", "\""}) + "{{end}}")
	case 9:
		g.w(pick([]string{"{{.H}}", "{{.J}}", "{{.R}}", "{{.I}}", "{{.Y}}", "{{.W}}", "{{.K}}", "{{.N}}", "{{.T}}", "{{len .L}}", "{{\"lit\"}}", "{{/* c */}}"}))
	case 10:
		g.w(pick([]string{"{{.A}}{{.B}}", "{{.A | urlquery}}", "{{html .A}}", "{{printf \"%s\" .A}}", "{{index .L 0}}", "{{.Missing}}"}))
	}
}

// text that is valid wherever character data is
func (g *c01Gen) textFrag() {
	switch r := rng.Intn(20); {
	case r < 12:
		g.w(pick(c01Words))
	case r < 14 && g.weird:
		g.w(pick(c01Stray))
	case r < 15:
		g.w(pick(c01WS))
	default:
		g.w(pick(c01Words[:8]))
	}
}

func (g *c01Gen) attrStatic(ctx string) (pre string, ref string, post string) {
	ref = g.ref()
	switch ctx {
	case "URL", "TrustedResourceURLOrURL":
		pre = pick([]string{"", "", "/p/", "/p?q=", "https://a.example/x?y=", "/a/b#", "mailto:", "x"})
		if pre != "" {
			post = pick([]string{"", "", "/t", "&k=v", "#f"})
		}
	case "TrustedResourceURL":
		pre = pick([]string{"", "/static/", "https://a.example/js/", "/s?v="})
		if pre == "" || rng.Intn(3) == 0 {
			ref = ".R"
		}
	case "URLSet":
		pre = pick([]string{"", "", "/a.png 1x, "})
	case "Style":
		pre = pick([]string{"", "color:red;"})
		ref = ".Y"
	case "Identifier":
		ref = ".I"
	case "HTMLValOnly":
		ref = ".H"
	case "Script":
		ref = ".J"
	case "None", "HTML":
		pre = pick([]string{"", "", "t: ", "a&amp;b ", "x "})
		post = pick([]string{"", "", " end", "."})
		if rng.Intn(8) == 0 {
			ref = ".H"
		}
	default: // enumerations: only the bare action is accepted; a plain string is mostly rejected at run time
	}
	return
}

// the value of one attribute, with its action (if any) in a valid position when valid is set
func (g *c01Gen) attr(e string, valid bool) {
	var a string
	known := g.q.attrsOf[strings.ToLower(e)]
	switch r := rng.Intn(10); {
	case r < 7 && len(known) > 0:
		a = pick(known)
	case r < 8:
		a = pick(g.q.allAttrs)
	default:
		a = pick(c01OddAttrs)
	}
	ctx := g.q.attrCtx(e, a)
	g.w(g.ws())
	g.slot()
	name := c01Case(a, g.weird)
	if g.anywhere > 0 && rng.Intn(30) == 0 && len(name) > 1 {
		g.w(name[:1])
		g.anywhere--
		g.w(g.action(g.ref()))
		g.w(name[1:])
	} else {
		g.w(name)
	}
	g.slot()
	style := rng.Intn(20)
	if style == 0 { // boolean attribute
		return
	}
	if g.weird && rng.Intn(4) == 0 {
		g.w(g.ws())
	}
	g.w("=")
	g.slot()
	if g.weird && rng.Intn(4) == 0 {
		g.w(g.ws())
	}
	quote := "\""
	switch {
	case style < 5:
		quote = "'"
	case style < 7:
		quote = ""
	}
	g.w(quote)
	withAction := ctx != "" && rng.Intn(3) != 0
	if quote == "" {
		// unquoted value: an action here is always rejected
		g.w(pick([]string{"v", "1", "a&amp;b", "x/y", "v=w", "\"q", "a'b", "a`b", "<"}))
		if withAction && !valid && rng.Intn(4) == 0 {
			g.w(g.action(g.ref()))
		}
		g.slot()
		return
	}
	if !withAction {
		g.w(pick([]string{"", "v", "a b", "a&amp;b", "a>b", "a<b", "x=y", "/p?q=1&r=2", "&#34;", "javascript:alert(1)", "a\nb", "`"}))
		if quote == "\"" {
			g.w(pick([]string{"", "'"}))
		} else {
			g.w(pick([]string{"", "\""}))
		}
		g.slot()
		g.w(quote)
		return
	}
	pre, ref, post := g.attrStatic(ctx)
	g.w(pre)
	switch r := rng.Intn(16); {
	case r == 0 && g.depth < 3:
		g.w("{{if .T}}" + g.action(ref) + "{{else}}w{{end}}")
	case r == 1 && g.depth < 3 && !g.dot:
		g.w("{{range .L}}{{.}} {{end}}")
	case r == 2 && g.depth < 3 && !g.dot:
		g.w("{{with .A}}{{.}}{{end}}")
	case r == 3:
		g.w(g.call("h", ref))
	case r == 4 && (ctx == "None" || ctx == "HTML"):
		g.w(g.action(ref) + "-" + g.action(g.ref()))
	default:
		g.w(g.action(ref))
	}
	g.w(post)
	g.slot()
	g.w(quote)
}

func (g *c01Gen) endTag(e string) {
	switch rng.Intn(14) {
	case 0:
		if g.weird {
			return // omitted end tag
		}
	case 1:
		if g.weird {
			g.w("</" + strings.ToUpper(e) + ">")
			return
		}
	case 2:
		if g.weird {
			g.w("</" + e + g.ws() + ">")
			return
		}
	case 3:
		if g.weird {
			g.w("</" + e + " x=\"y\">")
			return
		}
	}
	g.w("</")
	g.slot()
	g.w(e)
	g.slot()
	g.w(">")
}

func (g *c01Gen) element(valid bool) {
	var e string
	kind := "normal"
	switch r := rng.Intn(100); {
	case r < 55:
		e = pick(g.q.elems)
		switch g.q.contentOf[e] {
		case "RCDATA":
			kind = "rcdata"
		case "Script":
			kind = "script"
		case "StyleSheet":
			kind = "style"
		}
	case r < 68:
		e, kind = pick(g.q.void), "void"
	case r < 80:
		e = pick(c01Special)
		kind = map[string]string{"script": "script", "style": "style", "textarea": "rcdata", "title": "rcdata"}[e]
	case r < 86 && g.weird:
		e, kind = pick(c01RawText), "rawtext"
	case r < 93 && g.weird:
		e, kind = pick(c01Malformed), "unknown"
	default:
		e = pick([]string{"b", "i", "p", "div", "span", "a", "li", "td"})
	}
	name := c01Case(e, g.weird)
	g.w("<")
	g.slot()
	g.w(name)
	g.slot()
	for n := rng.Intn(3); n > 0; n-- {
		if rng.Intn(12) == 0 && g.depth < 3 {
			// conditional attribute
			g.depth++
			g.w("{{if .T}}")
			g.attr(e, valid)
			if rng.Intn(2) == 0 {
				g.w("{{else}}")
				g.attr(e, valid)
			}
			g.w("{{end}}")
			g.depth--
		} else {
			g.attr(e, valid)
		}
	}
	if rng.Intn(3) == 0 {
		g.w(g.ws())
	}
	g.slot()
	if rng.Intn(10) == 0 {
		g.w("/")
	}
	g.w(">")
	if kind == "void" {
		return
	}
	switch kind {
	case "rcdata":
		for n := rng.Intn(3); n > 0; n-- {
			if rng.Intn(2) == 0 {
				g.w(g.action(g.ref()))
			} else {
				g.w(pick([]string{"t", "a <b> c", "x &amp; y", "</b>", "<!-- n -->", "&lt;", "a</titl", "\r\n"}))
			}
			g.slot()
		}
	case "script":
		for n := rng.Intn(3); n > 0; n-- {
			r := rng.Intn(8)
			switch {
			case r < 2:
				g.w("{{.J}}")
			case r == 2 && !valid:
				g.w(g.action(g.ref()))
			case r == 3 && g.weird:
				g.w(pick(c01JS))
			default:
				g.w(pick(c01JS[:7]))
			}
			g.slot()
		}
	case "style":
		for n := rng.Intn(3); n > 0; n-- {
			r := rng.Intn(8)
			switch {
			case r < 2:
				g.w("{{.K}}")
			case r == 2 && !valid:
				g.w(g.action(g.ref()))
			default:
				g.w(pick(c01CSS))
			}
			g.slot()
		}
	case "rawtext":
		for n := rng.Intn(3); n > 0; n-- {
			switch rng.Intn(4) {
			case 0:
				g.w(g.action(g.ref()))
			case 1:
				g.w("<b>" + g.action(g.ref()) + "</b>")
			default:
				g.w(pick([]string{"raw", "<b>r</b>", "a < b", "&amp;"}))
			}
		}
	default:
		if g.depth < 4 {
			g.depth++
			g.items(rng.Intn(3), valid)
			g.depth--
		}
	}
	g.endTag(name)
}

func (g *c01Gen) control(valid bool) {
	g.depth++
	defer func() { g.depth-- }()
	switch rng.Intn(9) {
	case 0, 1:
		g.w("{{if " + pick([]string{".T", ".F", ".A", "not .T", "and .T .A"}) + "}}")
		g.items(1+rng.Intn(2), valid)
		if rng.Intn(2) == 0 {
			g.w("{{else}}")
			g.items(1+rng.Intn(2), valid)
		}
		g.w("{{end}}")
	case 2, 3:
		if g.dot {
			g.w("{{if .}}y{{end}}")
			return
		}
		g.w("{{range " + pick([]string{".L", ".L", ".E", "$i, $e := .L"}) + "}}")
		g.dot = true
		g.items(1+rng.Intn(2), valid)
		g.dot = false
		if rng.Intn(3) == 0 {
			g.w("{{else}}none")
		}
		g.w("{{end}}")
	case 4:
		if g.dot {
			return
		}
		g.w("{{with " + pick([]string{".A", ".B", ".N", "$x := .A"}) + "}}")
		g.dot = true
		g.items(1+rng.Intn(2), valid)
		g.dot = false
		if rng.Intn(3) == 0 {
			g.w("{{else}}nothing")
		}
		g.w("{{end}}")
	case 5, 6:
		arg := "."
		h := pick([]string{"h", "hi", "ha", "txt", "empty"})
		if h == "h" || h == "hi" {
			arg = g.ref()
		}
		if g.dot {
			h, arg = "hi", "."
		}
		g.w(g.call(h, arg))
	case 7:
		n := fmt.Sprintf("blk%d", rng.Intn(3))
		if g.dot {
			g.w("z")
			return
		}
		g.w("{{block \"" + n + "\" .}}")
		g.items(1, valid)
		g.w("{{end}}")
	case 8:
		// the same helper from two sites (context neutral helpers are fine; context opening ones are D1)
		h := pick([]string{"hi", "hi", "h", "open", "openq", "opena"})
		switch h {
		case "open":
			g.w(g.call(h, "") + ">k</b>" + g.call(h, "") + g.action(g.ref()) + ">r</b>")
		case "openq":
			g.w(g.call(h, "") + "k\">k</b>" + g.call(h, "") + g.action(g.ref()) + "\">r</b>")
		case "opena":
			g.w(g.call(h, "") + "/k\">k</a>" + g.call(h, "") + g.action(g.ref()) + "\">r</a>")
		default:
			g.w(g.call(h, g.ref()) + "<p title=\"" + g.call("h", g.ref()) + "\">" + g.call(h, g.ref()) + "</p>")
		}
	}
}

func (g *c01Gen) items(n int, valid bool) {
	for ; n > 0; n-- {
		switch r := rng.Intn(100); {
		case r < 22:
			g.textFrag()
		case r < 42:
			g.w(g.action(g.ref()))
		case r < 46:
			g.w("{{.H}}")
		case r < 78:
			g.element(valid)
		case r < 82:
			if g.weird {
				g.w(pick(c01Comments))
			} else {
				g.w("<!-- c -->")
			}
		case r < 84:
			if g.weird {
				g.w(pick(c01Doctypes))
			}
		case r < 96 && g.depth < 3:
			g.control(valid)
		default:
			g.textFrag()
		}
		g.slot()
	}
}

func c01Template(q *c01Policy) string {
	g := &c01Gen{q: q, defs: map[string]string{}}
	valid := true
	switch r := rng.Intn(10); {
	case r < 4: // plain lexical forms, actions only in valid positions
	case r < 7: // lexical variants, actions only in valid positions
		g.weird = true
	default: // lexical variants and insertions at arbitrary positions
		g.weird = true
		valid = false
		g.anywhere = 1 + rng.Intn(2)
	}
	g.items(1+rng.Intn(4), valid)
	var names []string
	for n := range g.defs {
		names = append(names, n)
	}
	sort.Strings(names)
	text := g.b.String()
	for _, n := range names {
		d := "{{define \"" + n + "\"}}" + g.defs[n] + "{{end}}"
		if rng.Intn(2) == 0 {
			text = d + text
		} else {
			text += d
		}
	}
	return text
}

// ---------------------------------------------------------------- the run

// fragments of the exhaustive small scope
var c01Frags = []string{"<b>", "</b>", "<a href=\"", "<a title='", "<i ", "title=", "\"", "'", " ", ">", "=", "/", "x", "<", "</", "\r", "{{.A}}", "{{.B}}", "{{if .T}}", "{{else}}", "{{end}}",
	"{{range .L}}", "{{.}}", "{{with .A}}", "{{template \"h\" .}}", "<script>", "</script>", "<title>", "</title>", "<textarea>", "</textarea>", "<style>", "</style>", "<!--", "-->",
	"<!DOCTYPE html>", "<xmp>", "</xmp>", "<br>", "<plaintext>"}

type c01Counters struct {
	templates, accepted, execOK int
}

func (k *c01Counters) note(text string, sh c01Shape) {
	k.templates++
	r := runTemplate(text, "", dataFromWire(c01Inert(sh)), false)
	if r.outcome == "ok" || r.outcome == "execerr" {
		k.accepted++
	}
	if r.outcome == "ok" {
		k.execOK++
	}
}

// c01Emit runs one template with the inert environment against nData hostile environments, and the marker environment.
func c01Emit(c *caseWriter, text, name string, sh c01Shape, idx int, nData int) {
	inert := c01Inert(sh)
	for d := 0; d < nData; d++ {
		var hostile string
		switch d {
		case 0:
			hostile = c01Wire(sh, func(i int) string { return c01Carrier(idx+i, c01Killer) })
		case 1:
			hostile = c01Wire(sh, func(i int) string { return c01Carrier(rng.Intn(8), pick(c01Hostile)) })
		case 2:
			b := string([]byte{byte(idx % 256)})
			hostile = c01Wire(sh, func(i int) string { return "str:" + hx(b) })
		default:
			hostile = c01Wire(sh, func(i int) string { return c01Carrier(rng.Intn(8), pick(c01Hostile)+pick(c01Hostile)) })
		}
		emit(c, "struct", text, name, inert, hostile)
	}
	emit(c, "placement", text, name, c01Markers(sh))
}

func runC01(c *caseWriter) (string, bool, map[string]int) {
	quick := tier != "thorough"
	q := c01LoadPolicy()
	k := &c01Counters{}
	sh := c01Shape{T: true, nL: 2}
	idx := 0
	// (1) directed-search seeds: as hostile leaves of the pool templates and as template text
	for _, s := range extraSeeds {
		for _, v := range seedVariants(s) {
			if v == "" {
				continue
			}
			for _, t := range defPool[:24] {
				emit(c, "struct", t, "", c01Inert(sh), c01Wire(sh, func(int) string { return "str:" + hx(v) }))
			}
			c01Emit(c, "<b title=\""+v+"{{.A}}\">"+v+"{{.B}}</b>", "", sh, idx, 1)
		}
	}
	// (2) the 61 pool templates (with the recorded findings' witnesses), every hostile leaf, both branches
	for _, t := range defPool {
		for _, T := range []bool{true, false} {
			for _, nL := range []int{2, 0} {
				s := c01Shape{T, nL}
				c01Emit(c, t, "", s, idx, 3)
				idx++
			}
		}
		for _, h := range c01Hostile {
			emit(c, "struct", t, "", c01Inert(sh), c01Wire(sh, func(int) string { return "str:" + hx(h) }))
		}
	}
	// (2a) histories on one set: every ordered pair (executed first, then executed and judged) of the
	// templates a pool text defines (the root is "main"): what an earlier execution - successful or
	// refused - leaves behind in the set must not change how data is treated later
	c01Define := regexp.MustCompile(`\{\{-? *define "([^"]+)"`)
	for _, t := range append(append([]string{}, c01Sets...), defPool...) {
		names := []string{"main"}
		for _, m := range c01Define.FindAllStringSubmatch(t, -1) {
			names = append(names, m[1])
		}
		if len(names) < 2 {
			continue
		}
		pairs := 0
		for _, pre := range names {
			for _, tgt := range names {
				if pre == tgt || (quick && pairs >= 20) {
					continue
				}
				pairs++
				c01Emit(c, t, pre+"\x01"+tgt, sh, idx, 2)
				idx++
			}
		}
		if len(names) > 2 {
			c01Emit(c, t, strings.Join(names[1:], "\x01")+"\x01main", sh, idx, 2)
			idx++
			// every member after every ordered pair of the others (quick: the first 30)
			triples := 0
			for _, p1 := range names {
				for _, p2 := range names {
					for _, tgt := range names {
						if p1 == p2 || p2 == tgt || (quick && triples >= 30) {
							continue
						}
						triples++
						c01Emit(c, t, p1+"\x01"+p2+"\x01"+tgt, sh, idx, 1)
						idx++
					}
				}
			}
		}
	}
	for _, t := range []string{
		"<script>var x = \"<!--<script>\";</script>{{.A}}<b>",
		"<script>var x = \"<!--<script>\";</script><b title=\"{{.A}}\">k</b>",
		"<script><!--<script></script>{{.A}}",
		"{{define \"open\"}}<b {{end}}{{define \"X\"}}{{template \"open\"}}>k</b>{{template \"open\"}}{{.A}}>z</b>{{end}}{{template \"X\" .}}",
		"<p>k</p><plaintext>", "<b>k</b><xmp>", "<iframe><b>{{.A}}</b></iframe>", "<noscript><p title=\"{{.A}}\">{{.B}}</p></noscript>", "<XMP><i>{{.A}}</i>",
		"<td{{if .T}}title=\"{{.A}}\"{{end}}>k</td>", "<td{{template \"attr\" .A}}>k</td>{{define \"attr\"}}title=\"{{.}}\"{{end}}", "<script{{if .T}}x{{end}}>x = \"<!--\";</script>",
		"<script x=\"y\"</script>{{.A}}", "<title x=\"y\"</title>{{.A}}<b>k</b>", "<STYLE media='m'</style >{{.B}}", "x<title autocorrect=\"x {{.S}}.\"x &amp; y</title>",
		"<!DOCTYPE {{.A}}><p>k</p>", "<!doctype html {{.A}}>k", "<p>k</p><!DOCTYPE html", "<!DOCTYPE html><p>{{.A}}</p>",
		// break / continue inside a construct that is still open (the unchanged engine panics on them, finding D7 of
		// C08; an engine that accepts them must join the jump contexts with the loop's exit)
		"{{range .L}}<input name=\"n\" {{if $.T}}{{break}}{{end}}>{{end}} {{.A}}>", "{{range .L}}<b title=\"{{if $.T}}{{break}}{{end}}\">k</b>{{end}}{{.A}}\">z</b>",
		"{{range .L}}<script>{{if $.T}}{{break}}{{end}}</script>{{end}}{{.A}}</script>", "{{range .L}}<a href=\"/x{{if $.T}}{{continue}}{{end}}\">k</a>{{end}} {{.B}}", "{{range .L}}<!--{{if $.T}}{{break}}{{end}}-->{{end}}{{.A}}-->",
		"{{range .L}}{{if $.T}}<b {{continue}}{{end}}<i>{{.}}</i>{{end}} title=\"{{.A}}\">", "{{range .L}}<textarea>{{if $.T}}{{break}}{{end}}</textarea>{{end}}{{.A}}</textarea><p>k</p>",
		// bytes that are not ASCII in the body of a special element, before its end tag (an end-tag search on a
		// lower-cased or re-encoded copy shifts the offsets): invalid UTF-8, runes whose lower case has another length
		"<textarea>caf\xe9</textarea><b>{{.A}}</b><textarea>y</textarea>", "<title>\u212a\u212a\u212a</title><b title=\"{{.A}}\">k</b><title>t</title>", "<script>var s = \"\u023a\u023a\u023a\";</script><p>{{.A}}</p><script>var t;</script>",
		"<style>/* \u0130\u0130 */</style><i>{{.B}}</i><style>a{}</style>", "<textarea>\xff\xfe\xc0</textarea><a href=\"/p?q={{.A}}\">k</a><textarea>{{.B}}</textarea>", "<title>\u1e9e\u2126</TITLE><b>{{.A}}</b>",
		"<TEXTAREA>\u212a</TextArea ><i title='{{.A}}'>k</i>", "<script>/*\xe9\xe9\xe9\xe9*/</SCRIPT><b>{{.A}}</b><script>x</script>", "<style>\u023a{}</style ><b>{{.A}}</b>",
		// a conditional that may or may not START an unquoted attribute value (D50): when it writes nothing the
		// tokenizer is still before the value and takes the following attribute for it
		"<a x={{if .F}}y{{end}} title=\"{{.A}}\">k</a>", "<a x={{with .N}}y{{end}} title='{{.A}}'>k</a>", "<a x={{range .E}}y{{end}} title=\"{{.A}}\" lang=\"en\">k</a>", "<a x= {{if .F}}y{{end}} title=\"{{.B}}\">k</a>",
		"<a x={{if .T}}y{{end}} title=\"{{.A}}\">k</a>", "<input value={{if .F}}1{{end}} name=\"{{.A}}\">",
		// attribute names split over text nodes (D48), names chosen by conditionals followed by further
		// conditionals (D46, repaired), conditional static prefixes (D47, repaired)
		"<a title{{/* c */}}/=\"{{.A}}\">k</a>", "<a data-x{{/* c */}}/onclick=\"{{.A}}\">k</a>", "<a title{{if .F}}{{end}}/='{{.A}}'>k</a>", "<iframe src{{/* c */}}doc=\"{{.A}}\"></iframe>",
		"<a data-x{{with .N}}{{end}}onclick=\"{{.A}}\">k</a>", "<a id{{range .E}}{{end}}/title=\"{{.A}}\" lang=\"{{.B}}\">k</a>", "<b tit{{/* c */}}le=\"{{.A}}\">k</b>", "<b title{{/* c */}} ={{/* d */}} \"{{.A}}\">k</b>",
		"<a {{if .F}}title{{end}}{{if .T}}{{end}}=\"{{.A}}\">k</a>", "<a {{if .T}}title{{else}}alt{{end}}{{if .F}}{{end}}=\"{{.A}}\">k</a>", "<a {{if .F}}title{{else}}onclick{{end}}{{if .F}}{{end}}=\"{{.A}}\">k</a>",
		"{{if .T}}<script{{else}}<div{{end}}{{if .T}} {{end}}>{{.A}}</script>", "{{if .F}}<b{{else}}<i{{end}}{{if .T}} {{end}}title=\"{{.A}}\">k", "<a href=\"{{if .T}}{{else}}java{{end}}{{.A}}\">k</a>",
		"<a href=\"{{if .F}}{{else}}/p/{{end}}{{.A}}\">k</a>", "<a title=\"{{if .F}}{{else}}x{{end}}{{.A}}\">k</a>",
		// noscript: an ordinary element for a user agent without scripting - actions in its tags must be treated as in
		// any other tag (judged under both readings)
		"<noscript><a {{.A}}>k</a></noscript>", "<noscript><img alt={{.A}}></noscript><p>k</p>", "<NoScript><a href=\"{{.U}}\" title='{{.A}}'>{{.B}}</a></NoScript>",
		"<noscript><b {{.A}}=\"x\">k</b></noscript>", "<p>k</p><noscript><i class={{.B}}>k</i>",
		// D43 on the name of a special element (thorough-tier case placement#224393, kept as a directed one): the
		// engine reads <STYLE>, the tokenizer <STYLEx>, whose content is markup
		"Hello, World<STYLE{{with .A}}x{{end}}>a>b{}<!--</STYLE >{{.S}}<nav >k<li></li></nav>", "<title{{if .T}}x{{end}}><!--</title>{{.A}}<b>k</b>",
	} {
		c01Emit(c, t, "", sh, idx, 3)
		for _, h := range c01Hostile {
			emit(c, "struct", t, "", c01Inert(sh), c01Wire(sh, func(int) string { return "str:" + hx(h) }))
		}
	}
	// (2b) lexical edges of the tag grammar around an action in an attribute value: a character that
	// is white space for Unicode but not for HTML at each white-space position of a tag; branches
	// that end in different quoting states of the same attribute (join must refuse them); both
	// branches taken
	var edge []string
	for _, w := range c01NotHTMLWS {
		edge = append(edge,
			"<a"+w+"title=\"{{.A}}\">k</a>", "<a title"+w+"=\"{{.A}}\">k</a>", "<a title="+w+"\"{{.A}}\">k</a>",
			"<a title='x'"+w+"id=\"{{.A}}\">k</a>", "<span"+w+"title='{{.A}}'>k</span>", "<a href="+w+"\"/p?q={{.A}}\">k</a>",
			"<a title=\"x\""+w+">{{.A}}</a>", "<a "+w+"title=\"{{.A}}\">k</a>", "</b"+w+"><i title=\"{{.A}}\">k</i>")
	}
	for _, c := range []string{".T", ".F"} {
		for _, kw := range []string{"if", "with"} {
			edge = append(edge,
				"<a title={{"+kw+" "+c+"}}\"{{end}}{{.A}}\">k</a>",
				"<a title={{"+kw+" "+c+"}}\"{{else}}'{{end}}{{.A}}\">k</a>",
				"<a title={{"+kw+" "+c+"}}'{{end}}{{.A}}'>k</a>",
				"{{"+kw+" "+c+"}}<input value=\"{{else}}<input value={{end}}{{.A}}\" name=\"n\">",
				"<a title{{"+kw+" "+c+"}}=\"{{else}}={{end}}{{.A}}\">k</a>",
				"<a {{"+kw+" "+c+"}}title=\"{{else}}title={{end}}{{.A}}\">k</a>",
				"<a title=\"{{"+kw+" "+c+"}}\"{{end}} id=\"{{.A}}\">k</a>",
				"<a title=\"x{{"+kw+" "+c+"}}\"{{end}}>{{.A}}</a>",
				"<b>{{"+kw+" "+c+"}}<i title=\"{{end}}{{.A}}\">k</i></b>",
				"{{"+kw+" "+c+"}}<textarea>{{end}}{{.A}}</textarea>",
				"{{"+kw+" "+c+"}}<!--{{end}}{{.A}}-->")
		}
		edge = append(edge, "<a title={{range .L}}\"{{end}}{{.A}}\">k</a>", "<a title={{range .E}}\"{{end}}{{.A}}\">k</a>",
			"<a title=\"{{range .L}}{{.}}\"{{end}} id=\"{{.A}}\">k</a>")
	}
	for _, t := range edge {
		for _, T := range []bool{true, false} {
			c01Emit(c, t, "", c01Shape{T, 2}, idx, 3)
			idx++
		}
		k.note(t, sh)
	}
	// every single byte in the basic positions
	for _, t := range []string{"{{.A}}", "<p>{{.A}}</p>", "<b title=\"{{.A}}\">k</b>", "<b title='{{.A}}'>k</b>", "<title>{{.A}}</title>", "<textarea>{{.A}}</textarea>",
		"<a href=\"{{.A}}\">k</a>", "<a href=\"/p?q={{.A}}\">k</a>", "<a href='/p/{{.A}}'>k</a>", "<img srcset=\"{{.A}}\">", "<b title=\"{{.A}}{{.B}}\">{{.A}}{{.B}}</b>"} {
		for b := 0; b < 256; b++ {
			for _, v := range []string{string([]byte{byte(b)}), "a" + string([]byte{byte(b)}) + "b"} {
				emit(c, "struct", t, "", c01Inert(sh), c01Wire(sh, func(int) string { return "str:" + hx(v) }))
			}
		}
		k.note(t, sh)
	}
	// (3) exhaustive small scope over the fragment alphabet
	depth := 2
	if !quick {
		depth = 3
	}
	product(c01Frags, depth, func(t string) {
		if strings.Contains(t, "{{template") {
			t += "{{define \"h\"}}{{.A}}{{end}}"
		}
		k.note(t, sh)
		c01Emit(c, t, "", sh, idx, 1)
		idx++
	})
	// (4) the grammar: tag soup with actions and control structures
	n := 3000
	if !quick {
		n = 100000
	}
	g := &c01Counters{}
	for i := 0; i < n; i++ {
		t := c01Template(q)
		s := c01Shape{T: rng.Intn(4) != 0, nL: []int{2, 2, 1, 0}[rng.Intn(4)]}
		g.note(t, s)
		c01Emit(c, t, "", s, idx, 3)
		idx++
	}
	// (5) malformed: truncated and byte-damaged templates
	m := 300
	if !quick {
		m = 10000
	}
	for i := 0; i < m; i++ {
		t := c01Template(q)
		if len(t) > 2 {
			switch rng.Intn(3) {
			case 0:
				t = t[:rng.Intn(len(t))]
			case 1:
				p := rng.Intn(len(t))
				t = t[:p] + pick([]string{"\x00", "\xff", "<", "\"", "'", ">", "{{", "}}", "\r", "=", "/"}) + t[p:]
			default:
				p := rng.Intn(len(t) - 1)
				t = t[:p] + t[p+1:]
			}
		}
		k.note(t, sh)
		c01Emit(c, t, "", sh, idx, 1)
		idx++
	}
	// the models the theorems are about, tied to the code in the same run
	genSanitizerApply(c, quick)
	genTmplText(c, quick) // contextAfterText / escapeText / transitions: C01_alignment_open_attribute is about this model
	for _, v := range reachableContexts(2, 260) {
		emit(c, "sanitizer_for", ctxIn(v))
	}
	pct := 0
	if g.templates > 0 {
		pct = 100 * g.accepted / g.templates
	}
	rule := fmt.Sprintf("directed seeds; the 61 pool templates x both branches x list lengths x %d hostile leaves; every single byte in 11 basic positions; all sequences of <= %d fragments from a %d-fragment alphabet; "+
		"%d grammar templates (tag soup: policy/special/void/raw-text/malformed element names, policy/handler/unknown/upper-case/namespaced attributes, three quoting styles, white-space variants, comments, DOCTYPE, stray markup, "+
		"actions, if/else, range, with, template, define, block at valid positions and, in 30%% of the templates, at arbitrary syntactic positions), of which the engine accepted %d (%d%%) and %d executed without error on the inert environment; "+
		"%d truncated/damaged templates; each template is executed with the inert placeholder environment and 3 control-equivalent hostile environments (all-in-one string, random hostile leaves in string/Stringer/pointer/error carriers, one of the 256 single bytes) "+
		"and once with distinct markers; the tokenizer specification judges the real output bytes; non-trivial = both runs succeeded and were compared",
		len(c01Hostile), depth, len(c01Frags), g.templates, g.accepted, pct, g.execOK, m)
	return rule, false, map[string]int{"grammar_templates": g.templates, "grammar_accepted": g.accepted, "grammar_accepted_pct": pct, "grammar_exec_ok": g.execOK,
		"other_templates": k.templates, "other_accepted": k.accepted}
}
