//go:build c04 || allprops

package main

import (
	"sort"
	"strings"

	"github.com/google/safehtml/template"
)

func init() {
	props["C04"] = runC04
	// policy_cell: <element> <attribute ("" = element content)> <quote: dq|sq|none> <rel ("" = no rel attribute)>
	//   -> analysis outcome (ok | deny:<code> | parseerr | panic..) and, per probe value, A:<hex of what the action emitted> | R
	reg("policy_cell", 4, func(c *caseWriter, in []string) {
		elem, attr, quote, rel := in[0], in[1], in[2], in[3]
		q := map[string]string{"dq": `"`, "sq": `'`, "none": ""}[quote]
		var pre, post string
		if attr == "" {
			pre, post = "<"+elem+">", "</"+elem+">"
		} else {
			pre = "<" + elem
			if rel != "" {
				pre += ` rel="` + rel + `"`
			}
			pre += " " + attr + "=" + q
			post = q + ">"
		}
		text := pre + "{{.}}" + post
		var results []string
		outcome := ""
		for _, p := range policyProbes {
			r := runTemplate(text, "", valueFromWire(p), false)
			switch {
			case r.outcome == "ok":
				if outcome == "" {
					outcome = "ok"
				}
				mid := r.out
				if strings.HasPrefix(mid, pre) && strings.HasSuffix(mid, post) && len(mid) >= len(pre)+len(post) {
					mid = mid[len(pre) : len(mid)-len(post)]
					results = append(results, "A:"+hx(mid))
				} else {
					results = append(results, "X:"+hx(mid)) // static text changed: reported as is
				}
			case r.outcome == "execerr":
				if outcome == "" {
					outcome = "ok"
				}
				results = append(results, "R")
			case strings.HasPrefix(r.outcome, "escape:"):
				outcome = "deny:" + strings.TrimPrefix(r.outcome, "escape:")
				results = append(results, "D")
			default:
				outcome = r.outcome
				results = append(results, "D")
			}
		}
		c.Case("policy_cell", hx(elem), hx(attr), hx(quote), hx(rel), outcome, strings.Join(results, ","))
	})
}

func init() {
	// cond_cell: the element name is chosen by a branch:  {{if .C}}<E1{{else}}<E2{{end}} [rel="R"] A="{{.X}}">
	//   -> for C = true and C = false: analysis outcome and per-probe results (as policy_cell)
	reg("cond_cell", 4, func(c *caseWriter, in []string) {
		e1, e2, attr, rel := in[0], in[1], in[2], in[3]
		pre := "{{if .C}}<" + e1 + "{{else}}<" + e2 + "{{end}}"
		if rel != "" {
			pre += ` rel="` + rel + `"`
		}
		pre += " " + attr + `="`
		text := pre + `{{.X}}">`
		fields := []string{hx(e1), hx(e2), hx(attr), hx(rel)}
		for _, cond := range []bool{true, false} {
			outcome := ""
			var results []string
			elem := e2
			if cond {
				elem = e1
			}
			opre := "<" + elem
			if rel != "" {
				opre += ` rel="` + rel + `"`
			}
			opre += " " + attr + `="`
			for _, p := range policyProbes {
				r := runTemplate(text, "", map[string]interface{}{"C": cond, "X": valueFromWire(p)}, false)
				switch {
				case r.outcome == "ok":
					if outcome == "" {
						outcome = "ok"
					}
					mid := r.out
					if strings.HasPrefix(mid, opre) && strings.HasSuffix(mid, `">`) && len(mid) >= len(opre)+2 {
						results = append(results, "A:"+hx(mid[len(opre):len(mid)-2]))
					} else {
						results = append(results, "X:"+hx(mid))
					}
				case r.outcome == "execerr":
					if outcome == "" {
						outcome = "ok"
					}
					results = append(results, "R")
				case strings.HasPrefix(r.outcome, "escape:"):
					outcome = "deny:" + strings.TrimPrefix(r.outcome, "escape:")
					results = append(results, "D")
				default:
					outcome = r.outcome
					results = append(results, "D")
				}
			}
			fields = append(fields, outcome, strings.Join(results, ","))
		}
		c.Case("cond_cell", fields...)
	})
	// cond_attr: the ATTRIBUTE name is chosen by a branch:  <E {{if .C}}A1{{else}}A2{{end}}[{{if .D}}{{end}}]="{{.X}}">
	//   (variant "2": followed by a second, empty conditional; variant "n": nested conditional on the else side)
	//   -> for C = true and C = false: analysis outcome and per-probe results (as policy_cell)
	reg("cond_attr", 4, func(c *caseWriter, in []string) {
		e, a1, a2, variant := in[0], in[1], in[2], in[3]
		names := "{{if .C}}" + a1 + "{{else}}" + a2 + "{{end}}"
		switch variant {
		case "2":
			names += "{{if .D}}{{end}}"
		case "n":
			names = "{{if .C}}" + a1 + "{{else}}{{if .D}}" + a1 + "{{else}}" + a2 + "{{end}}{{end}}"
		case "m":
			names = "{{if .C}}{{if .D}}" + a2 + "{{else}}" + a1 + "{{end}}{{else}}" + a2 + "{{end}}"
		case "0":
			// no else part: the attribute is a1 or nothing at all (a2 is ignored; only C = true is judged)
			names = "{{if .C}}" + a1 + "{{end}}"
		case "w":
			names = "{{with .C}}" + a1 + "{{end}}"
		}
		text := "<" + e + " " + names + `="{{.X}}">`
		fields := []string{hx(e), hx(a1), hx(a2), hx(variant)}
		for _, cond := range []bool{true, false} {
			outcome := ""
			var results []string
			attr := a2
			if cond {
				attr = a1
			}
			if !cond && (variant == "0" || variant == "w") {
				// the attribute name is empty on this path: not a cell of the policy
				fields = append(fields, "deny:noelse", "")
				continue
			}
			opre := "<" + e + " " + attr + `="`
			for _, p := range policyProbes {
				r := runTemplate(text, "", map[string]interface{}{"C": cond, "D": false, "X": valueFromWire(p)}, false)
				switch {
				case r.outcome == "ok":
					if outcome == "" {
						outcome = "ok"
					}
					mid := r.out
					if strings.HasPrefix(mid, opre) && strings.HasSuffix(mid, `">`) && len(mid) >= len(opre)+2 {
						results = append(results, "A:"+hx(mid[len(opre):len(mid)-2]))
					} else {
						results = append(results, "X:"+hx(mid))
					}
				case r.outcome == "execerr":
					if outcome == "" {
						outcome = "ok"
					}
					results = append(results, "R")
				case strings.HasPrefix(r.outcome, "escape:"):
					outcome = "deny:" + strings.TrimPrefix(r.outcome, "escape:")
					results = append(results, "D")
				default:
					outcome = r.outcome
					results = append(results, "D")
				}
			}
			fields = append(fields, outcome, strings.Join(results, ","))
		}
		c.Case("cond_attr", fields...)
	})
	// partial_cell: <element> <attribute> <static prefix>:  <E A="PRE{{.}}">  with each enumerated value:
	// was the template accepted by the analysis?  The driver refuses acceptance when the REVIEWED policy
	// gives (E, A) an enumerated class ("static partial values are refused in enumerated contexts")
	reg("partial_cell", 3, func(c *caseWriter, in []string) {
		text := "<" + in[0] + " " + in[1] + `="` + in[2] + `{{.}}">`
		accepted := "refused"
		detail := ""
		for _, v := range []string{"async", "auto", "ltr", "lazy", "eager", "_blank", "_self", "x"} {
			r := runTemplate(text, "", v, false)
			if r.outcome == "ok" || r.outcome == "execerr" {
				accepted = "accepted"
				if r.outcome == "ok" && detail == "" {
					detail = r.out
				}
			}
		}
		c.Case("partial_cell", hx(in[0]), hx(in[1]), hx(in[2]), accepted, hx(detail))
	})
	// sc_attr04: the engine's context choice for (element, attribute, normalised rel) through the hook,
	// judged against the reviewed policy by the driver
	reg("sc_attr04", 3, func(c *caseWriter, in []string) {
		sc, err := template.VerifSanitizationContextForAttrVal(in[0], in[1], in[2])
		name := ""
		if err == nil {
			name = template.VerifPolicyTables().ContextNames[sc]
		}
		c.Case("sc_attr04", hx(in[0]), hx(in[1]), hx(in[2]), hx(name))
	})
}

// probe values, in the order the driver expects (ocaml/drv_c04.ml)
var policyProbes = []string{
	"str:" + hx("zq"), "str:" + hx("javascript:alert(1)"), "safe:html:" + hx("<i>h</i>"), "safe:script:" + hx("s()"),
	"safe:style:" + hx("c:d;"), "safe:stylesheet:" + hx("a{}"), "safe:url:" + hx("http://u/"), "safe:tru:" + hx("/t.js"),
	"safe:identifier:" + hx("idz"), "str:" + hx("_blank"), "str:" + hx("auto"), "str:" + hx("async"), "str:" + hx("lazy"),
	"str:" + hx("_BLANK"), "str:" + hx("Auto"), "str:" + hx("ASYNC"), "str:" + hx("Lazy"), "str:" + hx("RTL"), "str:" + hx("_blan\u212a"), "str:" + hx("_ſelf"), "str:" + hx(" ltr"), "str:" + hx("eager\n"),
}

func runC04(c *caseWriter) (string, bool, map[string]int) {
	p := template.VerifPolicyTables()
	elemSet, attrSet := map[string]bool{}, map[string]bool{}
	for a, m := range p.ElementSpecific {
		attrSet[a] = true
		for e := range m {
			elemSet[e] = true
		}
	}
	for a := range p.GlobalAttr {
		attrSet[a] = true
	}
	for e := range p.ElementContent {
		elemSet[e] = true
	}
	for e := range p.AllowedVoid {
		elemSet[e] = true
	}
	// names outside the policy: obsolete / SVG / MathML / custom / handlers / namespaced / malformed
	for _, e := range []string{"object", "embed", "applet", "base", "meta", "svg", "math", "template", "xmp", "plaintext", "noembed", "noframes", "my-element", "x", "frame-x", "keygen", "marquee", "bgsound", "isindex"} {
		elemSet[e] = true
	}
	for _, a := range []string{"onclick", "onerror", "onload", "onfocus", "srcdoc", "data", "xlink:href", "xml:base", "formtarget", "ping", "background", "manifest", "codebase", "classid", "archive", "usemap", "longdesc", "profile", "data-x", "data-", "data-X", "data-x-y_z9", "data_x", "aria-foo", "style", "http-equiv", "content", "integrity", "is", "unknownattr"} {
		attrSet[a] = true
	}
	var elems, attrs []string
	for e := range elemSet {
		elems = append(elems, e)
	}
	for a := range attrSet {
		attrs = append(attrs, a)
	}
	sort.Strings(elems)
	sort.Strings(attrs)
	for _, s := range extraSeeds {
		// directed search: a counterexample attribute or element name
		emit(c, "policy_cell", "div", s, "dq", "")
		emit(c, "policy_cell", s, "title", "dq", "")
		emit(c, "policy_cell", s, "", "dq", "")
		emit(c, "sc_attr", "div", s, "")
	}
	quick := tier != "thorough"
	n := 0
	for _, e := range elems {
		emit(c, "policy_cell", e, "", "dq", "")
		emit(c, "sc_content", e)
		for _, a := range attrs {
			emit(c, "sc_attr", e, a, "")
			// the full executed matrix is large: in the quick tier every pair is analysed through the
			// hook (sc_attr) and a deterministic third of the pairs is also executed end to end
			n++
			if !quick || n%3 == 0 || p.ElementSpecific[a][e] != 0 {
				emit(c, "policy_cell", e, a, "dq", "")
			}
			if n%17 == 0 {
				emit(c, "policy_cell", e, a, "sq", "")
				emit(c, "policy_cell", e, a, "none", "")
			}
		}
	}
	rels := []string{"stylesheet", "alternate", "icon", "alternate stylesheet", "stylesheet alternate", "preload", "ICON", " icon ", "icon\tnext", "manifest", "import", "modulepreload", "x", ""}
	for _, r := range rels {
		emit(c, "policy_cell", "link", "href", "dq", r)
		emit(c, "sc_attr", "link", "href", " "+strings.ToLower(strings.Join(strings.Fields(r), " "))+" ")
	}
	// element names chosen by a branch, and the context choice for every element under a non-empty rel
	condElems := []string{"link", "a", "base", "script", "iframe", "embed", "img", "area", "div", "use", "my-element"}
	for _, e1 := range condElems {
		for _, e2 := range condElems {
			if e1 != e2 && (e1 == "link" || e2 == "link" || (len(e1)+len(e2))%3 == 0) {
				for _, r := range []string{"next", "stylesheet", ""} {
					emit(c, "cond_cell", e1, e2, "href", r)
				}
				emit(c, "cond_cell", e1, e2, "src", "")
			}
		}
	}
	for _, e := range elems {
		for _, a := range []string{"href", "src", "title", "data-x", "onclick", "srcdoc"} {
			for _, r := range []string{" next ", " stylesheet ", " alternate stylesheet ", " icon x ", " modulepreload ", " x-next ", ""} {
				emit(c, "sc_attr04", e, a, r)
				emit(c, "sc_attr", e, a, r)
			}
		}
	}
	// attribute names chosen by a branch (both orders), alone, followed by an empty conditional, nested
	condAttrs := []string{"title", "onclick", "data-x", "href", "src", "srcdoc", "style", "target", "alt", "id", "dir", "aria-label", "formaction", "srcset", "loading", "async", "data-onclick", "class"}
	for _, e := range []string{"a", "div", "iframe", "img", "script", "button", "link"} {
		for i, a1 := range condAttrs {
			for j, a2 := range condAttrs {
				if i == j || (quick && (i+2*j+len(e))%4 != 0 && !(a1 == "data-x" || a2 == "data-x" || a1 == "title" || a2 == "title")) {
					continue
				}
				for _, v := range []string{"1", "2", "n", "m"} {
					emit(c, "cond_attr", e, a1, a2, v)
				}
				if j == (i+1)%len(condAttrs) {
					emit(c, "cond_attr", e, a1, a2, "0")
					emit(c, "cond_attr", e, a1, a2, "w")
				}
			}
		}
	}
	// static prefixes in the enumerated attributes of HTML (and in two that are not, as controls)
	for _, ea := range [][2]string{{"script", "async"}, {"div", "dir"}, {"p", "dir"}, {"bdo", "dir"}, {"input", "dir"}, {"img", "loading"}, {"iframe", "loading"},
		{"a", "target"}, {"area", "target"}, {"form", "target"}, {"base", "target"}, {"div", "title"}, {"a", "href"}} {
		for _, pre := range []string{"un", "x", " ", "_", "la", "auto ", "_blank x", "&#32;"} {
			emit(c, "partial_cell", ea[0], ea[1], pre)
		}
	}
	// upper / mixed case names reach the tables lower-cased
	for _, ea := range [][2]string{{"A", "HREF"}, {"Img", "SrC"}, {"SCRIPT", "src"}, {"Div", "onClick"}, {"IFRAME", "SRCDOC"}} {
		emit(c, "policy_cell", ea[0], ea[1], "dq", "")
	}
	genTmplText(c, quick)
	return "every (element, attribute) pair over the union of the policy tables' keys plus 19 elements and 30 attributes outside the policy (handlers, data-*, aria-*, namespaced, obsolete): analysed through the hook, a third executed end to end as <E A=\"{{.}}\"> with 13 probe values of every safe type (all pairs in the thorough tier), element contents <E>{{.}}</E>, quoting styles, link rel values; plus the text-level correspondence streams; non-trivial = the engine accepted the action", !quick, nil
}
