//go:build c18 || allprops

package main

import (
	"github.com/google/safehtml"
)

func init() { props["C18"] = runC18 }

func init() {
	reg("ident_const", 1, func(c *caseWriter, in []string) {
		outcome, out := guard(func() (string, string) { return "ok", safehtml.VerifIdentifierFromConstant(in[0]).String() })
		c.Case("ident_const", hx(in[0]), outcome, hx(out))
	})
	reg("ident_prefix", 2, func(c *caseWriter, in []string) {
		outcome, out := guard(func() (string, string) {
			return "ok", safehtml.VerifIdentifierFromConstantPrefix(in[0], in[1]).String()
		})
		c.Case("ident_prefix", hx(in[0]), hx(in[1]), outcome, hx(out))
	})
}

func identConst(c *caseWriter, v string)     { emit(c, "ident_const", v) }
func identPrefix(c *caseWriter, p, v string) { emit(c, "ident_prefix", p, v) }

func runC18(c *caseWriter) (string, bool, map[string]int) {
	alphabet := []string{"a", "Z", "5", "-", "_", "\n", "\x00", " ", "é", "١", "́", "\xff"}
	prefixes := []string{"a", "my-id", "Z_9", "", "1", "-", "é", "a\n", "a b"}
	depth := 3
	if tier == "thorough" {
		depth = 4
	}
	// corpus / directed seeds first
	for _, s := range extraSeeds {
		for _, v := range seedVariants(s) {
			identConst(c, v)
			identConst(c, "a"+v)
			for _, p := range prefixes {
				identPrefix(c, p, v)
				identPrefix(c, v, "x")
			}
			rxCase(c, "startsWithAlphabetPattern", v)
			rxCase(c, "onlyAlphanumericsOrHyphenPattern", v)
		}
	}
	// exhaustive small scope
	product(alphabet, depth, func(v string) {
		identConst(c, v)
		rxCase(c, "startsWithAlphabetPattern", v)
		rxCase(c, "onlyAlphanumericsOrHyphenPattern", v)
		for _, p := range prefixes {
			identPrefix(c, p, v)
		}
	})
	// every single byte, alone, leading, trailing
	for b := 0; b < 256; b++ {
		s := string([]byte{byte(b)})
		for _, v := range []string{s, "a" + s, s + "a", "a" + s + "b"} {
			identConst(c, v)
			identPrefix(c, "p", v)
			identPrefix(c, v, "v")
		}
	}
	// values that look like numbers or keywords (a fast path through strconv or a lookup table shows here):
	// every byte before and after digits, signs, exponents, base prefixes, digit separators, special floats
	for b := 0; b < 256; b++ {
		s := string([]byte{byte(b)})
		for _, v := range []string{s + "1", s + "12", "1" + s, "1" + s + "2", s + "0"} {
			identConst(c, v)
			identPrefix(c, "row", v)
			identPrefix(c, "p", v)
		}
	}
	for _, v := range []string{"+1", "-1", "+0", "-0", "+12", "1e3", "1E3", "1e+3", "0x1f", "0X1F", "0b1", "0o7", "1_000", "1.5", ".5", "5.", "+.5", "١٢", "１２", "true", "false", "nil", "null", "NaN", "nan", "Inf", "+Inf", "-inf", "Infinity",
		"9223372036854775807", "9223372036854775808", "-9223372036854775808", "18446744073709551616", "00", "007", " 1", "1 ", "\t1", "1\n", "+", "++1", "+-1", "1+", "1-1"} {
		identConst(c, v)
		for _, p := range []string{"row", "a", "my-id", "x1"} {
			identPrefix(c, p, v)
		}
	}
	for _, m := range malformed {
		for _, v := range []string{m, "a" + m, m + "a"} {
			identConst(c, v)
			identPrefix(c, "p", v)
			rxCase(c, "onlyAlphanumericsOrHyphenPattern", v)
		}
	}
	// random: valid bodies with hostile tails
	valid := []string{"a", "b", "Z", "0", "9", "-", "_", "x1"}
	tails := []string{"", "\n", "\r\n", "\n\n", "\x00", " ", "\t", "é", "١", "́", " ", "\xff", "a\n", "\nb"}
	n := 2000
	if tier == "thorough" {
		n = 60000
	}
	for i := 0; i < n; i++ {
		v := randFrom(valid, 8) + pick(tails)
		if rng.Intn(4) == 0 {
			v = pick(tails) + v
		}
		identConst(c, v)
		identPrefix(c, pick(prefixes), v)
	}
	return "number-like and keyword-like values (every byte before / after digits, signs, exponents, base prefixes, separators, special floats, 64-bit boundaries); all strings of <= depth symbols over {a Z 5 - _ LF NUL SP U+00E9 U+0661 U+0301 0xFF} as value (x 9 prefixes), every single byte alone/leading/trailing/inner, malformed UTF-8 shapes, random valid bodies with hostile heads/tails; non-trivial = the constructor accepted (returned an Identifier)", true, map[string]int{"depth": depth}
}
