//go:build c18 || allprops

package main

import (
	"github.com/google/safehtml"
)

func init() { props["C18"] = runC18 }

func init() {
	reg("ident_const", 1, func(c *caseWriter, in []string) {
		outcome, out := guard(func() (string, string) { return "ok", safehtml.VerifIdentifierFromConstant(in[0]).String() })
		c.Case("ident_const", hx(in[0]), outcome, hx(out))
	})
	reg("ident_prefix", 2, func(c *caseWriter, in []string) {
		outcome, out := guard(func() (string, string) {
			return "ok", safehtml.VerifIdentifierFromConstantPrefix(in[0], in[1]).String()
		})
		c.Case("ident_prefix", hx(in[0]), hx(in[1]), outcome, hx(out))
	})
}

func identConst(c *caseWriter, v string)     { emit(c, "ident_const", v) }
func identPrefix(c *caseWriter, p, v string) { emit(c, "ident_prefix", p, v) }

func runC18(c *caseWriter) (string, bool, map[string]int) {
	alphabet := []string{"a", "Z", "5", "-", "_", "\n", "\x00", " ", "é", "١", "́", "\xff"}
	prefixes := []string{"a", "my-id", "Z_9", "", "1", "-", "é", "a\n", "a b"}
	depth := 3
	if tier == "thorough" {
		depth = 4
	}
	// corpus / directed seeds first
	for _, s := range extraSeeds {
		for _, v := range seedVariants(s) {
			identConst(c, v)
			identConst(c, "a"+v)
			for _, p := range prefixes {
				identPrefix(c, p, v)
				identPrefix(c, v, "x")
			}
			rxCase(c, "startsWithAlphabetPattern", v)
			rxCase(c, "onlyAlphanumericsOrHyphenPattern", v)
		}
	}
	// exhaustive small scope
	product(alphabet, depth, func(v string) {
		identConst(c, v)
		rxCase(c, "startsWithAlphabetPattern", v)
		rxCase(c, "onlyAlphanumericsOrHyphenPattern", v)
		for _, p := range prefixes {
			identPrefix(c, p, v)
		}
	})
	// every single byte, alone, leading, trailing
	for b := 0; b < 256; b++ {
		s := string([]byte{byte(b)})
		for _, v := range []string{s, "a" + s, s + "a", "a" + s + "b"} {
			identConst(c, v)
			identPrefix(c, "p", v)
			identPrefix(c, v, "v")
		}
	}
	for _, m := range malformed {
		for _, v := range []string{m, "a" + m, m + "a"} {
			identConst(c, v)
			identPrefix(c, "p", v)
			rxCase(c, "onlyAlphanumericsOrHyphenPattern", v)
		}
	}
	// random: valid bodies with hostile tails
	valid := []string{"a", "b", "Z", "0", "9", "-", "_", "x1"}
	tails := []string{"", "\n", "\r\n", "\n\n", "\x00", " ", "\t", "é", "١", "́", " ", "\xff", "a\n", "\nb"}
	n := 2000
	if tier == "thorough" {
		n = 60000
	}
	for i := 0; i < n; i++ {
		v := randFrom(valid, 8) + pick(tails)
		if rng.Intn(4) == 0 {
			v = pick(tails) + v
		}
		identConst(c, v)
		identPrefix(c, pick(prefixes), v)
	}
	return "all strings of <= depth symbols over {a Z 5 - _ LF NUL SP U+00E9 U+0661 U+0301 0xFF} as value (x 9 prefixes), every single byte alone/leading/trailing/inner, malformed UTF-8 shapes, random valid bodies with hostile heads/tails; non-trivial = the constructor accepted (returned an Identifier)", true, map[string]int{"depth": depth}
}
