//go:build c09 || allprops

package main

// C09: concurrent execution of a template set is race-free and equals sequential.
//
// Stream lockcheck: one line per API method that the property allows to run concurrently; the OCaml
// driver re-evaluates the extracted lock-discipline checker on the regenerated summary of the method.
//
// Stream conc: generated multi-goroutine programs. The runner itself is built without -race, so the
// programs are run by a generated Go test in a scratch module (<workdir>/racemod, `replace
// github.com/google/safehtml => /repo`) under `go test -race`: every program in its own child process,
// sequentially in several orders and then concurrently; the data-race reports are parsed here and
// mapped to the program that was running.

import (
	_ "embed"
	"encoding/hex"
	"encoding/json"
	"flag"
	"fmt"
	"io/ioutil"
	"os"
	"os/exec"
	"path/filepath"
	"regexp"
	"strings"
)

//go:embed c09_race_test.go.txt
var c09RaceTestSrc string

func init() { props["C09"] = runC09 }

var c09Methods = []string{
	"#translator",
	"Template.Execute", "Template.ExecuteToHTML", "Template.ExecuteTemplate", "Template.ExecuteTemplateToHTML",
	"Template.Lookup", "Template.Templates", "Template.Name", "Template.DefinedTemplates",
}

type c09Program struct {
	Seed  int64        `json:"seed"`
	Defs  [][2]string  `json:"defs"`
	G     [][][]string `json:"g"`
	Reps  int          `json:"reps"`
	CSP   bool         `json:"csp,omitempty"`
	Tight bool         `json:"tight,omitempty"`
}

type c09Set struct {
	defs    [][2]string // first = root
	failing bool        // has a member whose analysis fails
	csp     bool
	bad     []string // the members whose first execution fails (analysis or run time)
}

// The pool: members sharing helper templates; helpers used in several contexts; members whose
// analysis fails (non-text end context, branch mismatch, undefined callee, disallowed position) and
// members that call them; recursive helpers.
var c09Pool = []c09Set{
	{defs: [][2]string{{"root", `<html>{{template "a" .}}{{template "b" .}}</html>`},
		{"a", `<p>{{template "h" .}}</p>`}, {"b", `<div>{{template "h" .}} {{template "k" .}}</div>`},
		{"h", `<b>{{.}}</b>`}, {"k", `<i>{{.}}</i>`}}},
	{defs: [][2]string{{"root", `{{template "a" .}}`},
		{"h", `{{.}}`}, {"a", `<p>{{template "h" .}}</p>`}, {"b", `<a title="{{template "h" .}}">x</a>`},
		{"c", `<a href="/p?q={{template "h" .}}">y</a>`}, {"d", `<p>{{template "h" .}}!</p>`}}},
	{defs: [][2]string{{"root", `<p>{{.}}</p>`},
		{"f", `<a href="{{.}}`}, {"a", `<p>{{.}}</p>`}, {"b", `<ul><li>{{.}}</li></ul>`}, {"c", `{{template "a" .}}{{template "b" .}}`}}, failing: true, bad: []string{"f"}},
	{defs: [][2]string{{"root", `ok {{.}}`},
		{"f", `{{if .}}<a href="{{else}}<b>{{end}}x`}, {"a", `fine {{.}}`}, {"b", `{{template "a" .}}!`}, {"g", `{{template "f" .}}`}}, failing: true, bad: []string{"f", "g"}},
	{defs: [][2]string{{"root", `<ul>{{template "r" .}}</ul>`},
		{"r", `{{if .}}<li>{{.V}}</li>{{template "r" .Next}}{{end}}`}, {"a", `<ol>{{template "r" .}}</ol>`}, {"b", `<p>{{template "a" .}}</p>`}}},
	{defs: [][2]string{{"root", `<p>{{.}}</p>`},
		{"f", `<a href="{{.}}`}, {"a", `{{template "f" .}}`}, {"b", `<p>{{.}}</p>`}, {"c", `<q>{{template "b" .}}</q>`}}, failing: true, bad: []string{"f", "a"}},
	{defs: [][2]string{{"root", `{{template "a1" .}}{{template "a2" .}}{{template "a3" .}}{{template "a4" .}}`},
		{"a1", `<p>{{template "h" .}}</p>`}, {"a2", `<p class="c">{{template "h" .}}{{template "k" .}}</p>`},
		{"a3", `<span>{{template "k" .}}</span>`}, {"a4", `<em>{{template "h" .}}</em>{{template "a3" .}}`},
		{"h", `<b>{{.}}</b>`}, {"k", `<i title="{{.}}">{{.}}</i>`}}},
	{defs: [][2]string{{"root", `<p>{{.}}</p>`},
		{"h", `{{.}}`}, {"a", `<script>var x = {{template "h" .}};</script>`}, {"b", `<p>{{template "h" .}}</p>`}, {"c", `<style>{{.}}</style>`}}, failing: true, bad: []string{"a", "c"}},
	{defs: [][2]string{{"root", `<p>{{.}}</p>`},
		{"a", `{{template "nope" .}}`}, {"b", `<p>{{.}}</p>`}, {"c", `{{template "b" .}}{{template "b" .}}`}}, failing: true, bad: []string{"a"}},
	{defs: [][2]string{{"root", `{{template "b" .}}`},
		{"a", `{{. | html}}`}, {"b", `<p>{{template "a" .}}</p>`}, {"c", `<a href="/x?y={{. | urlquery}}">l</a>`}}},
	{defs: [][2]string{{"root", `<div>{{template "p" .}}</div>`},
		{"p", `{{if .}}<p>{{.V}}{{template "q" .Next}}</p>{{end}}`}, {"q", `{{if .}}<q>{{.V}}{{template "p" .Next}}</q>{{end}}`},
		{"a", `<section>{{template "q" .}}</section>`}}},
	{defs: [][2]string{{"root", `<a {{template "at" .}}>r</a>`},
		{"at", `title="{{.}}"`}, {"a", `<a {{template "at" .}}>x</a>`}, {"b", `<b {{template "at" .}}>y</b>`}, {"c", `<p>{{.}}</p>`}}},
	{defs: [][2]string{{"root", `<p>{{.}}</p>`},
		{"a", `<a onclick="f()">{{.}}</a>`}, {"b", `<p>{{.}}</p>`}, {"c", `{{template "b" .}}`}}, failing: true, bad: []string{"a"}, csp: true},
	// a helper whose TEXT is refused (an error without a node) reached by several members: the error values
	// handed to different goroutines must not be one shared object that a later analysis rewrites
	{defs: [][2]string{{"root", `<p>{{.}}</p>`},
		{"f", `<a title=a"b>{{.}}</a>`}, {"a", `{{template "f" .}}`}, {"b", `<p>{{template "f" .}}</p>`}, {"c", `<i>{{.}}</i>`}, {"d", `<ul><li>{{template "f" .}}</li></ul>`}},
		failing: true, bad: []string{"f", "a", "b", "d"}},
}

var c09Data = []string{"s1", "s2", "n", "t", "l0", "l2", "nil"}

func (s c09Set) names() []string {
	var n []string
	for _, d := range s.defs {
		n = append(n, d[0])
	}
	return n
}

func c09Encode(p c09Program) string {
	b, err := json.Marshal(p)
	if err != nil {
		panic(err)
	}
	return string(b)
}

// c09Witness is the canonical D9 program: a first, failing, execution concurrent with
// DefinedTemplates in a loop.
func c09Witness() string {
	s := c09Pool[2]
	var loop [][]string
	for i := 0; i < 12; i++ {
		loop = append(loop, []string{"D", "root", "", ""})
	}
	return c09Encode(c09Program{Seed: 9, Defs: s.defs, Reps: 4,
		G: [][][]string{{{"E", "f", "", "s1"}}, loop, {{"D", "a", "", ""}, {"T", "root", "f", "s2"}, {"D", "a", "", ""}}}})
}

func c09RandomProgram(i int) string {
	s := c09Pool[rng.Intn(len(c09Pool))]
	names := s.names()
	ng := 2 + rng.Intn(7)
	maxOps := 4
	if ng > 4 {
		maxOps = 2
	}
	// a third of the programs over a set with a failing member leave DefinedTemplates out, so that
	// not every such program is a D9 program
	noDefined := s.failing && rng.Intn(3) == 0
	p := c09Program{Seed: int64(rng.Intn(1 << 30)), Defs: s.defs, Reps: 2, CSP: s.csp}
	for g := 0; g < ng; g++ {
		var ops [][]string
		n := 1 + rng.Intn(maxOps)
		for k := 0; k < n; k++ {
			h, m, d := pick(names), pick(names), pick(c09Data)
			switch r := rng.Intn(100); {
			case r < 22:
				ops = append(ops, []string{"E", h, "", d})
			case r < 30:
				ops = append(ops, []string{"H", h, "", d})
			case r < 44:
				ops = append(ops, []string{"T", h, m, d})
			case r < 50:
				ops = append(ops, []string{"X", h, m, d})
			case r < 62:
				if rng.Intn(8) == 0 {
					m = "missing"
				}
				ops = append(ops, []string{"L", h, m, ""})
			case r < 74:
				ops = append(ops, []string{"S", h, "", ""})
			case r < 84:
				ops = append(ops, []string{"N", h, "", ""})
			default:
				if noDefined {
					ops = append(ops, []string{"S", h, "", ""})
				} else {
					ops = append(ops, []string{"D", h, "", ""})
				}
			}
		}
		p.G = append(p.G, ops)
	}
	return c09Encode(p)
}

// ---- running programs under the race detector

type c09Report struct{ outcome, detail, stack1, stack2 string }

var c09Cache = map[string][]c09Report{}

func c09WorkDir() string {
	if f := flag.Lookup("out"); f != nil && f.Value.String() != "" {
		return filepath.Join(filepath.Dir(f.Value.String()), "racemod")
	}
	return "/verif/.work/C09/racemod"
}

func c09WriteIfChanged(path, content string) {
	if old, err := ioutil.ReadFile(path); err == nil && string(old) == content {
		return
	}
	if err := ioutil.WriteFile(path, []byte(content), 0o644); err != nil {
		panic(err)
	}
}

var c09StackHeader = regexp.MustCompile(`^(?:Previous )?(?:[Aa]tomic )?(?:[Ww]rite|[Rr]ead) at 0x[0-9a-f]+ by (?:main )?goroutine(?: \d+)?:$`)
var c09FuncLine = regexp.MustCompile(`^  (\S.*)\(\)$`)

// c09ParseReports extracts (stack1, stack2) of every data-race report in the output of one child.
func c09ParseReports(out string) [][2][]string {
	var reports [][2][]string
	lines := strings.Split(out, "\n")
	for i := 0; i < len(lines); i++ {
		if !strings.HasPrefix(lines[i], "WARNING: DATA RACE") {
			continue
		}
		var stacks [][]string
		j := i + 1
		for ; j < len(lines) && !strings.HasPrefix(lines[j], "=================="); j++ {
			if c09StackHeader.MatchString(strings.TrimRight(lines[j], " \r")) {
				var st []string
				for j+1 < len(lines) && strings.TrimSpace(lines[j+1]) != "" {
					j++
					if m := c09FuncLine.FindStringSubmatch(strings.TrimRight(lines[j], " \r")); m != nil {
						st = append(st, m[1])
					}
				}
				stacks = append(stacks, st)
			}
		}
		var r [2][]string
		for k := 0; k < 2 && k < len(stacks); k++ {
			r[k] = stacks[k]
		}
		reports = append(reports, r)
		i = j
	}
	return reports
}

func c09Top(st []string) string {
	if len(st) == 0 {
		return "?"
	}
	return st[0]
}

// c09RunBatch runs the programs (JSON texts) under the race detector and fills c09Cache.
func c09RunBatch(progs []string) {
	var todo []string
	seen := map[string]bool{}
	for _, p := range progs {
		if _, ok := c09Cache[p]; !ok && !seen[p] {
			todo = append(todo, p)
			seen[p] = true
		}
	}
	if len(todo) == 0 {
		return
	}
	dir := c09WorkDir()
	if err := os.MkdirAll(dir, 0o755); err != nil {
		panic(err)
	}
	c09WriteIfChanged(filepath.Join(dir, "go.mod"), "module racemod\n\ngo 1.16\n\nrequire github.com/google/safehtml v0.0.0\n\nreplace github.com/google/safehtml => "+repoRoot()+"\n")
	if sum, err := ioutil.ReadFile(repoRoot() + "/go.sum"); err == nil {
		c09WriteIfChanged(filepath.Join(dir, "go.sum"), string(sum))
	}
	c09WriteIfChanged(filepath.Join(dir, "race_test.go"), c09RaceTestSrc)
	list := filepath.Join(dir, "programs.txt")
	var lb strings.Builder
	for _, p := range todo {
		lb.WriteString(hex.EncodeToString([]byte(p)))
		lb.WriteString("\n")
	}
	if err := ioutil.WriteFile(list, []byte(lb.String()), 0o644); err != nil {
		panic(err)
	}
	outPath := filepath.Join(dir, "output.txt")
	os.Remove(outPath)
	cmd := exec.Command("go", "test", "-race", "-tags", "verif", "-count=1", "-run", "^TestPrograms$", "-timeout", "60m", ".")
	cmd.Dir = dir
	cmd.Env = append(os.Environ(), "GOFLAGS=-mod=mod", "GOPROXY=off", "GOSUMDB=off", "GOTOOLCHAIN=local", "CGO_ENABLED=1",
		"C09_PROGRAMS="+list, "C09_OUT="+outPath)
	testOut, err := cmd.CombinedOutput()
	raw, rerr := ioutil.ReadFile(outPath)
	if rerr != nil {
		fmt.Fprintf(os.Stderr, "C09: the race test did not run (%v):\n%s\n", err, testOut)
		os.Exit(2)
	}
	begin := regexp.MustCompile(`(?m)^=== C09 BEGIN (\d+)\n`)
	end := regexp.MustCompile(`(?m)^=== C09 END (\d+) exit=(-?\d+)\n`)
	text := string(raw)
	for idx, p := range todo {
		b := begin.FindStringIndex(text)
		e := end.FindStringSubmatchIndex(text)
		if b == nil || e == nil {
			fmt.Fprintf(os.Stderr, "C09: output of program %d missing\n", idx)
			os.Exit(2)
		}
		body := text[b[1]:e[0]]
		exit := text[e[4]:e[5]]
		text = text[e[1]:]
		var reps []c09Report
		for _, r := range c09ParseReports(body) {
			reps = append(reps, c09Report{"race", c09Top(r[0]) + " <-> " + c09Top(r[1]), strings.Join(r[0], "\n"), strings.Join(r[1], "\n")})
		}
		outcome, detail := "", ""
		for _, l := range strings.Split(body, "\n") {
			f := strings.Split(strings.TrimSpace(l), "\t")
			if len(f) >= 2 && f[0] == "RESULT" {
				outcome = f[1]
				if len(f) >= 3 {
					if d, err := hex.DecodeString(f[2]); err == nil {
						detail = string(d)
					}
				}
			}
		}
		switch {
		case strings.Contains(body, "C09 TIMEOUT"):
			reps = append(reps, c09Report{"crash", "timeout (hang)", "", ""})
		case outcome == "" || outcome == "badprog":
			msg := "exit " + exit + ": " + detail
			for _, l := range strings.Split(body, "\n") {
				if strings.HasPrefix(l, "fatal error:") || strings.HasPrefix(l, "panic:") {
					msg = l
					break
				}
			}
			if outcome == "badprog" {
				reps = append(reps, c09Report{"badprog", msg, "", ""})
			} else {
				reps = append(reps, c09Report{"crash", msg, "", ""})
			}
		case outcome == "differ":
			reps = append(reps, c09Report{"differ", detail, "", ""})
		default:
			if len(reps) == 0 {
				reps = append(reps, c09Report{outcome, detail, "", ""})
			}
		}
		c09Cache[p] = reps
	}
}

func init() {
	reg("lockcheck", 1, func(c *caseWriter, in []string) { c.Case("lockcheck", hx(in[0])) })
	reg("conc", 1, func(c *caseWriter, in []string) {
		c09RunBatch([]string{in[0]})
		for _, r := range c09Cache[in[0]] {
			c.Case("conc", hx(in[0]), r.outcome, hx(r.detail), hx(r.stack1), hx(r.stack2))
		}
	})
}

func runC09(c *caseWriter) (string, bool, map[string]int) {
	for _, m := range c09Methods {
		emit(c, "lockcheck", m)
	}
	n := 150
	if tier == "thorough" {
		n = 2000
	}
	progs := []string{c09Witness()}
	// directed-search seeds: programs handed back by the check driver
	for _, s := range extraSeeds {
		var p c09Program
		if json.Unmarshal([]byte(s), &p) == nil && len(p.Defs) > 0 && len(p.G) > 0 {
			progs = append(progs, s)
		}
	}
	// every set once with first executions of all its members in parallel plus read-only calls
	for _, s := range c09Pool {
		p := c09Program{Seed: 1, Defs: s.defs, Reps: 2, CSP: s.csp}
		for _, nm := range s.names() {
			p.G = append(p.G, [][]string{{"E", nm, "", "l2"}, {"L", "root", nm, ""}})
		}
		p.G = append(p.G, [][]string{{"S", "root", "", ""}, {"N", "root", "", ""}, {"T", "root", s.names()[1], "s2"}})
		progs = append(progs, c09Encode(p))
	}
	// interference: while one goroutine keeps executing a member, another makes the first execution of a
	// failing member and then of a third member: whatever the failed analysis leaves behind must not
	// make a later analysis rewrite trees that are being executed
	for si, s := range c09Pool {
		if !s.failing {
			continue
		}
		names := s.names()
		var good []string
		bad := s.bad
		for _, nm := range names {
			isBad := false
			for _, b := range bad {
				if b == nm {
					isBad = true
				}
			}
			if !isBad {
				good = append(good, nm)
			}
		}
		for _, b := range bad {
			for i, m1 := range good {
				for j, m2 := range good {
					if i == j {
						continue
					}
					p := c09Program{Seed: int64(2000 + 100*si + 10*i + j), Defs: s.defs, Reps: 4, CSP: s.csp}
					var busy [][]string
					for k := 0; k < 40; k++ {
						busy = append(busy, []string{"E", m1, "", c09Data[k%3]})
					}
					p.G = [][][]string{
						busy,
						{{"E", m1, "", "s2"}, {"E", b, "", "s1"}, {"E", m2, "", "s2"}, {"E", m1, "", "s1"}},
						{{"T", "root", m1, "n"}, {"T", "root", b, "s2"}, {"T", "root", m2, "s1"}},
					}
					progs = append(progs, c09Encode(p))
				}
			}
		}
	}
	// contention: every goroutine makes the SAME first call on the SAME member of a fresh set, many
	// repetitions, so that the lookup / analysis / commit of one member is entered by several
	// goroutines at once (a check-then-act on the analysis state that is split over two critical
	// sections shows here); each method that analyses, each member (failing ones included)
	contReps, contG := 40, 8
	if tier == "thorough" {
		contReps = 200
	}
	for si, s := range c09Pool {
		for mi, nm := range s.names() {
			if tier != "thorough" && !s.failing && (si+mi)%3 != 0 {
				continue
			}
			for vi, op := range [][]string{{"T", "root", nm, "s1"}, {"E", nm, "", "s2"}, {"X", "root", nm, "l2"}} {
				if tier != "thorough" && vi != (si+mi)%3 && !(s.failing && vi == 0) {
					continue
				}
				p := c09Program{Seed: int64(1000 + 10*si + mi), Defs: s.defs, Reps: contReps, CSP: s.csp, Tight: true}
				for g := 0; g < contG; g++ {
					p.G = append(p.G, [][]string{op})
				}
				progs = append(progs, c09Encode(p))
			}
		}
	}
	// first use: every goroutine's very first call reaches a run-time sanitizer (URL normalisation, query escaping,
	// attribute and text escaping) - with the cold-start round of the child, whatever these build on first use is
	// built by several goroutines at once
	{
		firstUse := [][2]string{{"root", `<a href="{{.}}">r</a>`}, {"a", `<a href="/p?q={{.}}">a</a>`}, {"b", `<img src="/i/{{.}}" alt="{{.}}">`},
			{"c", `<p title='{{.}}'>{{.}}</p>`}, {"d", `<form action="{{.}}"><input value="{{.}}"></form>`}}
		for v, data := range []string{"s1", "s2"} {
			p := c09Program{Seed: int64(5000 + v), Defs: firstUse, Reps: contReps, Tight: true}
			for g := 0; g < contG; g++ {
				nm := firstUse[(g+v)%len(firstUse)][0]
				p.G = append(p.G, [][]string{{"E", nm, "", data}})
			}
			progs = append(progs, c09Encode(p))
		}
	}
	n += len(progs)
	for i := 0; len(progs) < n; i++ {
		progs = append(progs, c09RandomProgram(i))
	}
	c09RunBatch(progs)
	for _, p := range progs {
		emit(c, "conc", p)
	}
	return fmt.Sprintf("lockcheck: the 8 API methods of the property + the translator flag. conc: the canonical D9 witness, one all-members-first-execution program per set of a pool of %d sets (shared helpers, helpers in several contexts, failing members and their callers, recursive helpers, CSP), contention programs (8 goroutines making the same first Execute / ExecuteTemplate / ExecuteTemplateToHTML call on the same member of a fresh set, spinning start barrier, 40 or 200 repetitions), then random programs: 2-8 goroutines, 1-4 calls each from {Execute, ExecuteToHTML, ExecuteTemplate, ExecuteTemplateToHTML, Lookup, Templates, Name, DefinedTemplates} on members of ONE fresh set, start barrier, seeded Gosched yields; each program in its own process under go test -race, compared with the calls made one after another (3 orders; exhaustive linearisation search when the results are order dependent); non-trivial = results equal to the sequential ones", len(c09Pool)), false, map[string]int{"programs": len(progs)}
}
