//go:build c17 || allprops

package main

// C17: ScriptFromDataAndConstant.
//
// Streams
//   script_data  name, value (wire syntax below), script -> outcome ok|err|panic, Script string
//   json_string  s -> json.Marshal(s)                 (correspondence of the string encoder)
//   json_compact raw -> json.Marshal(json.RawMessage(raw)), json.Valid(raw)
//                                                      (correspondence of compact + scanner)
//
// Wire syntax of a data value (ASCII, no white space, self-delimiting; <hex> is lower-case
// hex of a byte string and may be empty; the second character selects how the harness
// realises the node as a Go value and is ignored by the model):
//
//   z0|z1|z2|z3          null: nil interface | (*int)(nil) | nil map | nil slice
//   t  |  f              bool
//   n<k><hex>.           number; <hex> = its text exactly as strconv formats it;
//                        k: i int64, u uint64, d float64, e float32, j json.Number
//   s<k><hex>.           string bytes; k: s Go string, t encoding.TextMarshaler returning them,
//                        p *string
//   r<k><hex>.           bytes supplied by the value itself; k: r json.RawMessage,
//                        m json.Marshaler (value receiver), p json.Marshaler (pointer receiver)
//   x<k>                 unencodable; k: c chan, f func, n NaN, i +Inf, e Marshaler returning
//                        an error, t TextMarshaler returning an error, k complex128
//   [<k> value* ]        slice; k: i []interface{}, s []string (all elements ss), d []float64 (all nd)
//   {<k> (<hex>. value)* }   map with keys sorted bytewise, unique; k: i map[string]interface{},
//                        s map[string]string (all values ss)
//   ( (<hex>. value)* )  struct with exactly these field names in this order (one of the struct
//                        types verifS1..verifS3 below, possibly behind a pointer)

import (
	"encoding/json"
	"errors"
	"fmt"
	"math"
	"sort"
	"strconv"
	"strings"

	"github.com/google/safehtml"
)

func init() { props["C17"] = runC17 }

// ---------------------------------------------------------------- wire

type jnode struct {
	k, sub byte
	b      string
	elems  []jnode
	keys   []string
}

func (n jnode) wire() string {
	var sb strings.Builder
	n.write(&sb)
	return sb.String()
}

func hexs(s string) string { return fmt.Sprintf("%x", s) }

func (n jnode) write(sb *strings.Builder) {
	switch n.k {
	case 'z', 'x':
		sb.WriteByte(n.k)
		sb.WriteByte(n.sub)
	case 't', 'f':
		sb.WriteByte(n.k)
	case 'n', 's', 'r':
		sb.WriteByte(n.k)
		sb.WriteByte(n.sub)
		sb.WriteString(hexs(n.b))
		sb.WriteByte('.')
	case '[':
		sb.WriteByte('[')
		sb.WriteByte(n.sub)
		for _, e := range n.elems {
			e.write(sb)
		}
		sb.WriteByte(']')
	case '{', '(':
		sb.WriteByte(n.k)
		if n.k == '{' {
			sb.WriteByte(n.sub)
		}
		for i, e := range n.elems {
			sb.WriteString(hexs(n.keys[i]))
			sb.WriteByte('.')
			e.write(sb)
		}
		if n.k == '{' {
			sb.WriteByte('}')
		} else {
			sb.WriteByte(')')
		}
	default:
		panic("bad node")
	}
}

type wireParser struct {
	s string
	i int
}

func (p *wireParser) next() byte {
	if p.i >= len(p.s) {
		panic("wire: unexpected end")
	}
	c := p.s[p.i]
	p.i++
	return c
}

func (p *wireParser) hexDot() string {
	j := strings.IndexByte(p.s[p.i:], '.')
	if j < 0 {
		panic("wire: missing '.'")
	}
	h := p.s[p.i : p.i+j]
	p.i += j + 1
	if h == "" {
		return ""
	}
	return unhx(h)
}

func (p *wireParser) value() jnode {
	c := p.next()
	switch c {
	case 'z', 'x':
		return jnode{k: c, sub: p.next()}
	case 't', 'f':
		return jnode{k: c}
	case 'n', 's', 'r':
		sub := p.next()
		return jnode{k: c, sub: sub, b: p.hexDot()}
	case '[':
		n := jnode{k: '[', sub: p.next()}
		for p.i < len(p.s) && p.s[p.i] != ']' {
			n.elems = append(n.elems, p.value())
		}
		p.next()
		return n
	case '{', '(':
		n := jnode{k: c}
		closer := byte(')')
		if c == '{' {
			n.sub = p.next()
			closer = '}'
		}
		for p.i < len(p.s) && p.s[p.i] != closer {
			n.keys = append(n.keys, p.hexDot())
			n.elems = append(n.elems, p.value())
		}
		p.next()
		return n
	}
	panic("wire: bad tag " + string(c))
}

func parseWire(s string) (n jnode, err error) {
	defer func() {
		if r := recover(); r != nil {
			err = fmt.Errorf("%v", r)
		}
	}()
	p := &wireParser{s: s}
	n = p.value()
	if p.i != len(s) {
		panic("wire: trailing input")
	}
	return n, nil
}

// ---------------------------------------------------------------- realisation as Go values

type verifRawM struct{ b []byte }

func (m verifRawM) MarshalJSON() ([]byte, error) { return m.b, nil }

type verifRawP struct{ b []byte }

func (m *verifRawP) MarshalJSON() ([]byte, error) { return m.b, nil }

type verifErrM struct{}

func (verifErrM) MarshalJSON() ([]byte, error) { return nil, errors.New("refuses") }

type verifTextM struct{ b []byte }

func (t verifTextM) MarshalText() ([]byte, error) { return t.b, nil }

type verifErrT struct{}

func (verifErrT) MarshalText() ([]byte, error) { return nil, errors.New("refuses") }

type verifS1 struct {
	A interface{} `json:"a"`
}
type verifS2 struct {
	X interface{} `json:"</script>"`
	Y interface{} `json:"b&"`
}
type verifS3 struct {
	N interface{} `json:"n"`
	M interface{} `json:"m"`
	É interface{}
}

var structKeys = [][]string{{"a"}, {"</script>", "b&"}, {"n", "m", "É"}}

// fmtFloat is floatEncoder.encode of encoding/json restated with strconv (the number text
// is an input of the model, not something it computes).
func fmtFloat(f float64, bits int) string {
	abs := math.Abs(f)
	format := byte('f')
	if abs != 0 {
		if bits == 64 && (abs < 1e-6 || abs >= 1e21) || bits == 32 && (float32(abs) < 1e-6 || float32(abs) >= 1e21) {
			format = 'e'
		}
	}
	b := strconv.AppendFloat(nil, f, format, -1, bits)
	if format == 'e' {
		n := len(b)
		if n >= 4 && b[n-4] == 'e' && b[n-3] == '-' && b[n-2] == '0' {
			b[n-2] = b[n-1]
			b = b[:n-1]
		}
	}
	return string(b)
}

func (n jnode) realise() interface{} {
	switch n.k {
	case 'z':
		switch n.sub {
		case '0':
			return nil
		case '1':
			return (*int)(nil)
		case '2':
			return map[string]interface{}(nil)
		case '3':
			return []interface{}(nil)
		}
	case 't':
		return true
	case 'f':
		return false
	case 'n':
		switch n.sub {
		case 'i':
			v, err := strconv.ParseInt(n.b, 10, 64)
			if err != nil || strconv.FormatInt(v, 10) != n.b {
				panic("wire: int text")
			}
			return v
		case 'u':
			v, err := strconv.ParseUint(n.b, 10, 64)
			if err != nil || strconv.FormatUint(v, 10) != n.b {
				panic("wire: uint text")
			}
			return v
		case 'd':
			v, err := strconv.ParseFloat(n.b, 64)
			if err != nil || fmtFloat(v, 64) != n.b {
				panic("wire: float64 text")
			}
			return v
		case 'e':
			v, err := strconv.ParseFloat(n.b, 32)
			if err != nil || fmtFloat(v, 32) != n.b {
				panic("wire: float32 text")
			}
			return float32(v)
		case 'j':
			return json.Number(n.b)
		}
	case 's':
		switch n.sub {
		case 's':
			return n.b
		case 't':
			return verifTextM{[]byte(n.b)}
		case 'p':
			s := n.b
			return &s
		}
	case 'r':
		switch n.sub {
		case 'r':
			return json.RawMessage([]byte(n.b))
		case 'm':
			return verifRawM{[]byte(n.b)}
		case 'p':
			return &verifRawP{[]byte(n.b)}
		}
	case 'x':
		switch n.sub {
		case 'c':
			return make(chan int)
		case 'f':
			return func() {}
		case 'n':
			return math.NaN()
		case 'i':
			return math.Inf(1)
		case 'e':
			return verifErrM{}
		case 't':
			return verifErrT{}
		case 'k':
			return complex(1, 2)
		}
	case '[':
		switch n.sub {
		case 'i':
			out := make([]interface{}, 0, len(n.elems))
			for _, e := range n.elems {
				out = append(out, e.realise())
			}
			return out
		case 's':
			out := make([]string, 0, len(n.elems))
			for _, e := range n.elems {
				out = append(out, e.realise().(string))
			}
			return out
		case 'd':
			out := make([]float64, 0, len(n.elems))
			for _, e := range n.elems {
				out = append(out, e.realise().(float64))
			}
			return out
		}
	case '{':
		switch n.sub {
		case 'i':
			out := map[string]interface{}{}
			for i, e := range n.elems {
				out[n.keys[i]] = e.realise()
			}
			return out
		case 's':
			out := map[string]string{}
			for i, e := range n.elems {
				out[n.keys[i]] = e.realise().(string)
			}
			return out
		}
	case '(':
		var vals []interface{}
		for _, e := range n.elems {
			vals = append(vals, e.realise())
		}
		for i, ks := range structKeys {
			if strings.Join(ks, "\x00") == strings.Join(n.keys, "\x00") && len(ks) == len(n.keys) {
				switch i {
				case 0:
					return verifS1{vals[0]}
				case 1:
					return &verifS2{vals[0], vals[1]}
				case 2:
					return verifS3{vals[0], vals[1], vals[2]}
				}
			}
		}
	}
	panic("wire: cannot realise node " + string(n.k) + string(n.sub))
}

// ---------------------------------------------------------------- node constructors

func jnull(k byte) jnode          { return jnode{k: 'z', sub: k} }
func jbool(b bool) jnode          { return jnode{k: map[bool]byte{true: 't', false: 'f'}[b]} }
func jint(v int64) jnode          { return jnode{k: 'n', sub: 'i', b: strconv.FormatInt(v, 10)} }
func juint(v uint64) jnode        { return jnode{k: 'n', sub: 'u', b: strconv.FormatUint(v, 10)} }
func jf64(v float64) jnode        { return jnode{k: 'n', sub: 'd', b: fmtFloat(v, 64)} }
func jf32(v float32) jnode        { return jnode{k: 'n', sub: 'e', b: fmtFloat(float64(v), 32)} }
func jnumber(s string) jnode      { return jnode{k: 'n', sub: 'j', b: s} }
func jstr(s string) jnode         { return jnode{k: 's', sub: 's', b: s} }
func jtext(s string) jnode        { return jnode{k: 's', sub: 't', b: s} }
func jstrp(s string) jnode        { return jnode{k: 's', sub: 'p', b: s} }
func jraw(k byte, s string) jnode { return jnode{k: 'r', sub: k, b: s} }
func jbad(k byte) jnode           { return jnode{k: 'x', sub: k} }
func jarr(e ...jnode) jnode       { return jnode{k: '[', sub: 'i', elems: e} }

func jmap(kv map[string]jnode) jnode {
	var ks []string
	for k := range kv {
		ks = append(ks, k)
	}
	sort.Strings(ks)
	n := jnode{k: '{', sub: 'i', keys: ks}
	for _, k := range ks {
		n.elems = append(n.elems, kv[k])
	}
	return n
}

func jstruct(i int, vals ...jnode) jnode {
	return jnode{k: '(', keys: structKeys[i], elems: vals}
}

// ---------------------------------------------------------------- streams

func init() {
	reg("script_data", 3, func(c *caseWriter, in []string) {
		n, err := parseWire(in[1])
		if err != nil {
			c.Case("script_data", hx(in[0]), hx(in[1]), hx(in[2]), "badwire", "-")
			return
		}
		outcome, out := guard(func() (string, string) {
			v := n.realise()
			s, err := safehtml.VerifScriptFromDataAndConstant(in[0], v, in[2])
			if err != nil {
				return "err", s.String()
			}
			return "ok", s.String()
		})
		c.Case("script_data", hx(in[0]), hx(in[1]), hx(in[2]), outcome, hx(out))
	})
	reg("json_string", 1, func(c *caseWriter, in []string) {
		outcome, out := guard(func() (string, string) {
			b, err := json.Marshal(in[0])
			if err != nil {
				return "err", ""
			}
			return "ok", string(b)
		})
		c.Case("json_string", hx(in[0]), outcome, hx(out))
	})
	reg("json_compact", 1, func(c *caseWriter, in []string) {
		valid := "0"
		if json.Valid([]byte(in[0])) {
			valid = "1"
		}
		outcome, out := guard(func() (string, string) {
			b, err := json.Marshal(json.RawMessage([]byte(in[0])))
			if err != nil {
				return "err", ""
			}
			return "ok", string(b)
		})
		c.Case("json_compact", hx(in[0]), valid, outcome, hx(out))
	})
}

func scriptData(c *caseWriter, name string, n jnode, script string) {
	emit(c, "script_data", name, n.wire(), script)
}

var c17HostileStrings = []string{
	"", "a", "</script>", "</SCRIPT >", "<!--", "-->", "]]>", "<![CDATA[", "<script>", "&amp;", "&lt;/script&gt;",
	"\u2028", "\u2029", "a\u2028b", "\xe2\x80", "\xe2\x80\xa7", "\xe2\x80\xaa", "\xe2\x81\xa8", "\xe2\x80\xa8\xe2\x80\xa9",
	"\xed\xa0\x80", "\xed\xb0\x80", "\xed\xa0\x80\xed\xb0\x80", "\ufffd", "\xef\xbf\xbd\xff", "\U0001F600", "é", "日本", "\u00a0", "\ufeff",
	"\"", "\\", "\\\"", "\"</script>", "\";alert(1)//", "\\u003c", "\\u2028", "\\\\", "'", "`", "${x}", "/", "\\/",
	"\x00", "\x01", "\x08", "\t", "\n", "\x0b", "\x0c", "\r", "\x1f", "\x7f", "\r\n", " ", "a b",
	"\x80", "\xbf", "\xc0\xaf", "\xc2", "\xe0\x80\x80", "\xf0\x90\x80", "\xf4\x90\x80\x80", "\xf5", "\xff", "\xfe\xff",
	"null", "true", "1e5", "[1]", "{\"a\":1}", "<>&", "a<b>c&d", strings.Repeat("<", 40),
}

var c17Names = []string{
	"ab", "x1", "$_", "_$9", "data", "aZ09$_", // valid
	"a", "$", "_", // one character
	"1a", "9", // leading digit
	"\u00e91", "a\u00e9", "\uff41\uff42", "a\u0661", // non-ASCII letters / digits
	"a b", "a;alert(1)//", "ab;alert(1)//", "", "ab\n", "\nab", "ab\r", "x=1;ab", "ab//", "ab\x00", "a-b", "a.b", "ab\xff", "ab\u2028", "ab ", " ab", "ab=", "a\tb",
}

var c17ValidRaw = []string{
	"null", " true ", "0", "-0.5e+10", "\"\"", "[]", "{}", "[ ]", "{ }", " { \"a\" : [ 1 , \"</script>\" ] } ", "\"<!--\"", "\"]]>\"",
	"\"\\u2028\"", "\"\u2028\"", "\"\u2029 x\"", "[1,2 , 3]\n", "\"\\u003c\"", "\"a\\\"b\"", "\"\\\\\"", "\"\xff\"", "\" \\t\\r\\n \"", "\"&\"", "[\"<\",\">\",\"&\"]",
	"{\"</script>\":\"<\"}", "{\"a\" :1, \"a\": 2}", "\"\\ud800\"", "\"\\ud83d\\ude00\"", "\"\\/\"", "\t[\r\n1e5,\n-1.25E-3 ]", "\"\x7f\"", "\"\xe2\x80\"", "[[[[\"\u2028\"]]]]",
	"\"\\u0000\"", "1E+2", "\"\\\\u2028\"", "\" < \"", "{\"k\":{\"k\":{\"k\":[ ]}}}",
}

var c17InvalidRaw = []string{
	"", " ", "{", "[1,]", "<", "\"a", "tru", "nul", "1 2", "\"\x01\"", "\u2028", "01", "{\"a\":1,}", "'a'", "[1 2]", "{\"a\" 1}", "{a:1}", "\"\\x\"", "\"\\u12g4\"",
	"-", "1.", "1e", ".5", "+1", "NaN", "[", "]", "\"\\", "nulll", "true false", "\xff", "[\xe2\x80 \xa8]", "\"a\"\"b\"", "1,", "{\"a\":}", "\"\n\"", "</script>",
}

func runC17(c *caseWriter) (string, bool, map[string]int) {
	thorough := tier == "thorough"
	scripts := []string{"go();", "", "</script>", "x\n//"}

	// ---- value pool
	var scalars []jnode
	for _, k := range []byte{'0', '1', '2', '3'} {
		scalars = append(scalars, jnull(k))
	}
	scalars = append(scalars, jbool(true), jbool(false))
	for _, v := range []int64{0, 1, -1, 42, 1234567890123, math.MaxInt64, math.MinInt64} {
		scalars = append(scalars, jint(v))
	}
	scalars = append(scalars, juint(math.MaxUint64))
	for _, v := range []float64{0, math.Copysign(0, -1), 1.5, -2.25, 1e20, 1e21, 1e-6, 1e-7, 3.14e-10, 123456789.125, math.MaxFloat64, math.SmallestNonzeroFloat64, 1e100, -1e-300, 0.1, 1 << 53} {
		scalars = append(scalars, jf64(v))
	}
	for _, v := range []float32{0.1, 1e-7, 3.4e38, 16777216, 1e21} {
		scalars = append(scalars, jf32(v))
	}
	for _, s := range []string{"0", "-0", "1e5", "1E+2", "12.50", "-1.0e-2"} {
		scalars = append(scalars, jnumber(s))
	}
	var strs []jnode
	for _, s := range c17HostileStrings {
		strs = append(strs, jstr(s))
	}
	for _, s := range malformed {
		strs = append(strs, jstr(s), jstr("a"+s+"b"))
	}
	var marsh []jnode
	for i, s := range c17ValidRaw {
		marsh = append(marsh, jraw("rmp"[i%3], s))
	}
	var bads []jnode
	for _, k := range []byte{'c', 'f', 'n', 'i', 'e', 't', 'k'} {
		bads = append(bads, jbad(k))
	}
	for i, s := range c17InvalidRaw {
		bads = append(bads, jraw("rmp"[i%3], s))
	}

	// ---- 1. directed-search seeds first
	for _, s := range extraSeeds {
		for _, v := range seedVariants(s) {
			for _, d := range []jnode{jint(1), jstr("</script>"), jstr(v)} {
				scriptData(c, v, d, "go();")
				scriptData(c, "a"+v, d, "go();")
				scriptData(c, v+"a", d, "go();")
			}
			scriptData(c, "ab", jmap(map[string]jnode{v: jstr(v)}), "go();")
			scriptData(c, "ab", jraw('r', v), "go();")
			scriptData(c, "ab", jraw('m', "\""+v+"\""), "go();")
			scriptData(c, "ab", jtext(v), "go();")
			emit(c, "json_string", v)
			emit(c, "json_compact", v)
			emit(c, "json_compact", "\""+v+"\"")
			rxCase(c, "jsIdentifierPattern", v)
		}
	}

	// ---- 2. every name with a few values; every value with a few names
	probe := []jnode{jint(1), jstr("</script><!--\u2028&\xff\"\\"), jmap(map[string]jnode{"<k>": jarr(jstr("]]>"), jnull('0'))}), jraw('m', " [ \"<\" ] "), jbad('c'), jraw('r', "[1,]")}
	for _, name := range c17Names {
		for _, d := range probe {
			for _, sc := range scripts[:2] {
				scriptData(c, name, d, sc)
			}
		}
		rxCase(c, "jsIdentifierPattern", name)
	}
	// names: exhaustive small scope over the distinguishing alphabet of the pattern
	nameAlphabet := []string{"a", "Z", "5", "$", "_", "\n", " ", ";", "\u00e9", "\xff"}
	nameDepth := 3
	if thorough {
		nameDepth = 4
	}
	product(nameAlphabet, nameDepth, func(v string) {
		scriptData(c, v, jstr("</script>"), "go();")
		rxCase(c, "jsIdentifierPattern", v)
	})
	for b := 0; b < 256; b++ {
		s := string([]byte{byte(b)})
		for _, v := range []string{s, "a" + s, s + "a", "a" + s + "b", "ab" + s} {
			scriptData(c, v, jint(1), "")
			rxCase(c, "jsIdentifierPattern", v)
		}
	}

	all := append(append(append(append([]jnode{}, scalars...), strs...), marsh...), bads...)
	for i, d := range all {
		scriptData(c, "ab", d, scripts[i%len(scripts)])
		scriptData(c, "ab", jarr(d), "go();")
		scriptData(c, "ab", jarr(jint(1), d, jstr("<")), "go();")
		scriptData(c, "ab", jmap(map[string]jnode{"k": d}), "go();")
		scriptData(c, "ab", jstruct(0, d), "go();")
		scriptData(c, "a", d, "go();")
		scriptData(c, "a b", d, "go();")
	}
	// strings in every position a string can take: value, TextMarshaler, *string, map key, []string, map[string]string
	for _, sn := range strs {
		s := sn.b
		scriptData(c, "ab", jtext(s), "go();")
		scriptData(c, "ab", jstrp(s), "go();")
		scriptData(c, "ab", jmap(map[string]jnode{s: jint(1), "z" + s: jstr(s)}), "go();")
		scriptData(c, "ab", jnode{k: '[', sub: 's', elems: []jnode{jstr(s), jstr("x")}}, "go();")
		scriptData(c, "ab", jnode{k: '{', sub: 's', keys: []string{s}, elems: []jnode{jstr(s)}}, "go();")
		scriptData(c, "ab", jstruct(1, jstr(s), jtext(s)), "go();")
		scriptData(c, "ab", jraw('m', "\""+s+"\""), "go();") // mostly invalid or hostile marshaler output
	}
	// every single byte as string data, alone and embedded; string-encoder correspondence
	for b := 0; b < 256; b++ {
		s := string([]byte{byte(b)})
		for _, v := range []string{s, "a" + s, s + "a", "<" + s + ">", "\xe2" + s, "\xe2\x80" + s, s + "\x80\xa8", "\\" + s} {
			scriptData(c, "ab", jstr(v), "go();")
			emit(c, "json_string", v)
			emit(c, "json_compact", "\""+v+"\"")
			emit(c, "json_compact", "[ \""+v+"\" ]")
		}
		emit(c, "json_compact", s)
		emit(c, "json_compact", "1"+s)
		emit(c, "json_compact", "[1"+s+"2]")
		emit(c, "json_compact", "\"\\"+s+"\"")
	}
	// exhaustive small scope of strings over the distinguishing alphabet of the string encoder
	strAlphabet := []string{"a", "<", ">", "&", "\"", "\\", "\n", "\x00", "\x1f", "\x7f", "\u00e9", "\u2028", "\u2029", "\xe2", "\x80", "\xa8", "\xa9", "\xff", "\xed\xa0\x80", "\U0001F600"}
	strDepth := 3
	if thorough {
		strDepth = 4
	}
	product(strAlphabet, strDepth, func(v string) {
		emit(c, "json_string", v)
		if len([]rune(v)) <= 2 || thorough {
			scriptData(c, "ab", jstr(v), "")
		}
	})
	// structs, typed slices, nesting
	scriptData(c, "ab", jstruct(2, jint(1), jstr("</script>"), jarr()), "go();")
	scriptData(c, "ab", jstruct(1, jstruct(0, jraw('p', " { \"<\" : \"\u2028\" } ")), jmap(map[string]jnode{})), "go();")
	scriptData(c, "ab", jnode{k: '[', sub: 'd', elems: []jnode{jf64(1e21), jf64(1e-7), jf64(0.5)}}, "go();")
	scriptData(c, "ab", jnode{k: '[', sub: 's'}, "go();")
	scriptData(c, "ab", jnode{k: '{', sub: 's'}, "go();")
	for _, r := range c17ValidRaw {
		emit(c, "json_compact", r)
		emit(c, "json_compact", " "+r+"\n")
		emit(c, "json_compact", "["+r+" , "+r+"]")
	}
	for _, r := range c17InvalidRaw {
		emit(c, "json_compact", r)
		emit(c, "json_compact", "["+r+"]")
		emit(c, "json_compact", "{\"a\":"+r+"}")
	}
	// exhaustive small scope of JSON-ish texts for compact + scanner
	rawAlphabet := []string{"[", "]", "{", "}", "\"", ":", ",", " ", "1", "-", "a", "\\", "<", "\u2028", "\n", "e", "."}
	rawDepth := 3
	if thorough {
		rawDepth = 4
	}
	product(rawAlphabet, rawDepth, func(v string) {
		emit(c, "json_compact", v)
		emit(c, "json_compact", "\""+v+"\"")
		emit(c, "json_compact", "["+v+"]")
	})

	// ---- 3. structured random stream: nested values built from the pools
	leafPool := append(append(append([]jnode{}, scalars...), strs...), marsh...)
	var gen func(depth int) jnode
	gen = func(depth int) jnode {
		r := rng.Intn(100)
		switch {
		case depth <= 0 || r < 45:
			if rng.Intn(60) == 0 {
				return bads[rng.Intn(len(bads))]
			}
			return leafPool[rng.Intn(len(leafPool))]
		case r < 65:
			n := rng.Intn(4)
			var es []jnode
			for i := 0; i < n; i++ {
				es = append(es, gen(depth-1))
			}
			return jarr(es...)
		case r < 90:
			n := rng.Intn(4)
			kv := map[string]jnode{}
			for i := 0; i < n; i++ {
				kv[pick(c17HostileStrings)+randFrom([]string{"a", "<", "\xff", "\""}, 2)] = gen(depth - 1)
			}
			return jmap(kv)
		default:
			i := rng.Intn(3)
			var vs []jnode
			for range structKeys[i] {
				vs = append(vs, gen(depth-1))
			}
			return jstruct(i, vs...)
		}
	}
	nrand := 4000
	if thorough {
		nrand = 80000
	}
	for i := 0; i < nrand; i++ {
		name := "ab"
		if rng.Intn(8) == 0 {
			name = pick(c17Names)
		}
		scriptData(c, name, gen(1+rng.Intn(4)), pick(scripts))
	}
	// random JSON texts with random white space, as Marshaler output
	var rawGen func(depth int) string
	ws := func() string { return randFrom([]string{" ", "\t", "\n", "\r"}, 2) }
	rawGen = func(depth int) string {
		r := rng.Intn(100)
		switch {
		case depth <= 0 || r < 50:
			switch rng.Intn(5) {
			case 0:
				return pick([]string{"null", "true", "false"})
			case 1:
				return pick([]string{"0", "-1", "1.5", "1e5", "-0.0E-7", "123456789012345678901234567890"})
			default:
				body := randFrom([]string{"a", "<", ">", "&", "\u2028", "\u2029", "\\\"", "\\\\", "\\u003c", "\\n", "\xff", "\xe2\x80", "\xa8", " ", "\\ud800", "\u00e9", "/", "\\/", "]", "}", ","}, 5)
				return "\"" + body + "\""
			}
		case r < 75:
			n := rng.Intn(4)
			var es []string
			for i := 0; i < n; i++ {
				es = append(es, ws()+rawGen(depth-1)+ws())
			}
			return "[" + ws() + strings.Join(es, ",") + "]"
		default:
			n := rng.Intn(4)
			var es []string
			for i := 0; i < n; i++ {
				es = append(es, ws()+"\""+randFrom([]string{"k", "<", "\u2028", "\\\""}, 3)+"\""+ws()+":"+ws()+rawGen(depth-1)+ws())
			}
			return "{" + ws() + strings.Join(es, ",") + "}"
		}
	}
	for i := 0; i < nrand; i++ {
		r := ws() + rawGen(3) + ws()
		// ---- 4. malformed stream: one random byte edit in a fifth of the texts
		if rng.Intn(5) == 0 && len(r) > 0 {
			p := rng.Intn(len(r))
			switch rng.Intn(3) {
			case 0:
				r = r[:p] + r[p+1:]
			case 1:
				r = r[:p] + pick([]string{"<", "\"", "\\", "\xe2", ",", "]", "\x00", " "}) + r[p:]
			default:
				r = r[:p] + pick(malformed) + r[p:]
			}
		}
		emit(c, "json_compact", r)
		if i%4 == 0 {
			scriptData(c, "ab", jarr(jraw("rmp"[i%3], r), jstr("<")), "go();")
		}
	}
	for _, m := range malformed {
		for _, v := range []string{m, "a" + m, m + "a", m + m} {
			emit(c, "json_string", v)
			emit(c, "json_compact", "\""+v+"\"")
			scriptData(c, "ab", jmap(map[string]jnode{v: jstr(v)}), "go();")
			scriptData(c, v, jint(1), "go();")
			scriptData(c, "ab"+v, jint(1), "go();")
		}
	}
	return "names: 33 hand-picked (valid, one-character, leading digit, non-ASCII letters, 'a b', 'a;alert(1)//', empty, trailing newline ...), all strings of <= depth symbols over {a Z 5 $ _ LF SP ; U+00E9 0xFF}, every single byte alone/leading/trailing/inner; " +
			"data: nil/bool/int/uint/float64/float32/json.Number scalars incl. exponent forms, ~90 hostile strings (every single byte, </script>, <!--, ]]>, U+2028, U+2029, invalid UTF-8, surrogate halves, quotes, backslashes, controls) as string / TextMarshaler / *string / map key / []string / struct field, " +
			"json.RawMessage and json.Marshaler (value and pointer receiver) returning hostile valid JSON with white space and '<', unencodable values (chan, func, NaN, Inf, complex, failing marshalers, marshalers returning invalid JSON), nested in slices/maps/structs to depth 4 (random); " +
			"json_string: all strings of <= depth symbols over a 20-symbol distinguishing alphabet of the string encoder; json_compact: all texts of <= depth symbols over a 17-symbol JSON alphabet, bare/quoted/bracketed, random JSON texts with random white space and single-byte damage; " +
			"non-trivial = the call succeeded and the literal was split out, re-decoded and scanned",
		true, map[string]int{"name_depth": nameDepth, "string_depth": strDepth, "raw_depth": rawDepth, "random": nrand}
}
