//go:build tmpl || allprops

package main

import (
	"bytes"
	"fmt"
	"sort"
	"strings"
	"text/template/parse"

	"github.com/google/safehtml"
	"github.com/google/safehtml/template"
)

// API histories: the real template API is driven by a list of ops; after every op the
// observable state is dumped.  One history = one case line of stream "hist":
//   hist id <nops> { <op wire> <result> <state dump> }*
// Wire forms (see also ocaml/drv_hist.ml):
//   ops     N:<name>  S:<h>:<name>  P:<h>:<parsed>  C:<h>  L:<h>:<name>  X:<h>  Y:<h>:<name>  I:<h>  Z:<h>
//           (<h> = index of the op that returned the handle; names in hex)
//   parsed  E  |  T<tree wire of every definition: (D <hexname> <nodes>)...>
//   result  H:<canonical handle index>|H:nil  parseok cannotparse parseerr cannotclone incomplete
//           undefined escape:<code> exec info panic:<class> badop
//   state   per live handle "<idx>=<escaped><errclass><treeNil><ownTextTreeNil>" joined by ','
//           then, after exec ops, ";" and the text association of the op's handle:
//           (D <hexname> nil|<nodes>)... sorted by name

type histOp struct {
	kind string
	h    int
	name string
	text string
}

func (o histOp) String() string {
	return fmt.Sprintf("%s:%d:%q:%q", o.kind, o.h, o.name, o.text)
}

var parseFuncs = func() map[string]interface{} {
	m := map[string]interface{}{}
	for _, n := range []string{"and", "call", "html", "index", "slice", "js", "len", "not", "or", "print", "printf", "println", "urlquery", "eq", "ge", "gt", "le", "lt", "ne"} {
		m[n] = true
	}
	return m
}()

// ---- tree serialisation -------------------------------------------------

type treeWriter struct {
	b  strings.Builder
	id int
}

func (w *treeWriter) hexes(l []string) {
	for _, s := range l {
		w.b.WriteString(" " + hx(s))
	}
}

func (w *treeWriter) arg(n parse.Node) {
	switch a := n.(type) {
	case *parse.DotNode:
		w.b.WriteString(" .")
	case *parse.NilNode:
		w.b.WriteString(" nil")
	case *parse.FieldNode:
		w.b.WriteString(" (f")
		w.hexes(a.Ident)
		w.b.WriteString(")")
	case *parse.VariableNode:
		w.b.WriteString(" (v")
		w.hexes(a.Ident)
		w.b.WriteString(")")
	case *parse.IdentifierNode:
		w.b.WriteString(" (i " + hx(a.Ident) + ")")
	case *parse.StringNode:
		w.b.WriteString(" (s " + hx(a.Text) + ")")
	case *parse.NumberNode:
		w.b.WriteString(" (n " + hx(a.Text) + ")")
	case *parse.BoolNode:
		w.b.WriteString(" (b " + b01(a.True) + ")")
	case *parse.ChainNode:
		w.b.WriteString(" (ch")
		w.arg(a.Node)
		w.hexes(a.Field)
		w.b.WriteString(")")
	case *parse.PipeNode:
		w.b.WriteString(" (pp")
		w.pipeBody(a)
		w.b.WriteString(")")
	default:
		w.b.WriteString(" (unknown)")
	}
}

func (w *treeWriter) pipeBody(p *parse.PipeNode) {
	w.b.WriteString(" (d")
	for _, d := range p.Decl {
		w.hexes(d.Ident)
	}
	w.b.WriteString(")")
	for _, c := range p.Cmds {
		w.b.WriteString(" (c")
		for _, a := range c.Args {
			w.arg(a)
		}
		w.b.WriteString(")")
	}
}

func (w *treeWriter) pipe(p *parse.PipeNode) {
	if p == nil {
		w.b.WriteString(" -")
		return
	}
	w.b.WriteString(" (p")
	w.pipeBody(p)
	w.b.WriteString(")")
}

func (w *treeWriter) list(l *parse.ListNode) {
	w.b.WriteString(" (L")
	if l != nil {
		for _, n := range l.Nodes {
			w.node(n)
		}
	}
	w.b.WriteString(")")
}

func (w *treeWriter) node(n parse.Node) {
	id := w.id
	w.id++
	switch x := n.(type) {
	case *parse.TextNode:
		fmt.Fprintf(&w.b, " (T %d %s)", id, hx(string(x.Text)))
	case *parse.ActionNode:
		fmt.Fprintf(&w.b, " (A %d", id)
		w.pipe(x.Pipe)
		w.b.WriteString(")")
	case *parse.IfNode:
		fmt.Fprintf(&w.b, " (I %d", id)
		w.pipe(x.Pipe)
		w.list(x.List)
		w.list(x.ElseList)
		w.b.WriteString(")")
	case *parse.RangeNode:
		fmt.Fprintf(&w.b, " (R %d", id)
		w.pipe(x.Pipe)
		w.list(x.List)
		w.list(x.ElseList)
		w.b.WriteString(")")
	case *parse.WithNode:
		fmt.Fprintf(&w.b, " (W %d", id)
		w.pipe(x.Pipe)
		w.list(x.List)
		w.list(x.ElseList)
		w.b.WriteString(")")
	case *parse.TemplateNode:
		fmt.Fprintf(&w.b, " (P %d %s", id, hx(x.Name))
		w.pipe(x.Pipe)
		w.b.WriteString(")")
	case *parse.BreakNode:
		fmt.Fprintf(&w.b, " (B %d)", id)
	case *parse.ContinueNode:
		fmt.Fprintf(&w.b, " (C %d)", id)
	case *parse.CommentNode:
		fmt.Fprintf(&w.b, " (M %d)", id)
	default:
		fmt.Fprintf(&w.b, " (U %d)", id)
	}
}

// defWire serialises one definition: (D <hexname> nil | <nodes>)
func defWire(name string, t *parse.Tree) string {
	w := &treeWriter{}
	w.b.WriteString("(D " + hx(name))
	if t == nil || t.Root == nil {
		w.b.WriteString(" nil")
	} else {
		for _, n := range t.Root.Nodes {
			w.node(n)
		}
	}
	w.b.WriteString(")")
	return w.b.String()
}

func parsedWire(name, text string) string {
	trees, err := parse.Parse(name, text, "", "", parseFuncs)
	if err != nil {
		return "E"
	}
	var names []string
	for n := range trees {
		names = append(names, n)
	}
	sort.Strings(names)
	var b strings.Builder
	b.WriteString("T")
	for _, n := range names {
		b.WriteString(defWire(n, trees[n]))
	}
	return b.String()
}

// ---- running a history on the real API ------------------------------------

var histData = map[string]interface{}{
	"A": "x<y&\"'", "B": "b", "U": "javascript:alert(1)", "S": "/safe/path?q=1", "L": []string{"l1", "<l2>"}, "E": []string{},
	"H": safehtml.VerifRawHTML("<b>h</b>"), "T": true, "F": false, "N": nil, "J": safehtml.VerifRawScript("alert(1)"),
	"R": safehtml.VerifRawTrustedResourceURL("/r.js"), "I": safehtml.VerifRawIdentifier("id1"), "Y": safehtml.VerifRawStyle("color:red;"),
}

func classifyErr(err error) string {
	if err == nil {
		return "exec"
	}
	if e, ok := err.(*template.Error); ok {
		return fmt.Sprintf("escape:%d", int(e.ErrorCode))
	}
	m := err.Error()
	switch {
	case strings.Contains(m, "cannot Parse after Execute"):
		return "cannotparse"
	case strings.Contains(m, "cannot Clone"):
		return "cannotclone"
	case strings.Contains(m, "incomplete or empty template"), strings.Contains(m, "is an incomplete template"):
		return "incomplete"
	case strings.Contains(m, "is undefined"):
		return "undefined"
	}
	return "exec"
}

func classifyPanic(r interface{}) string {
	m := fmt.Sprint(r)
	switch {
	case strings.Contains(m, "is unimplemented"):
		return "panic:breakcontinue"
	case strings.Contains(m, "nil pointer"), strings.Contains(m, "invalid memory address"):
		return "panic:nil"
	case strings.Contains(m, "shared between templates"):
		return "panic:shared"
	case strings.Contains(m, "infinite loop"):
		return "panic:textloop"
	case strings.Contains(m, "out of sync"):
		return "panic:outofsync"
	case strings.Contains(m, "no templates in name space"):
		return "panic:notemplates"
	}
	return "panic:other"
}

type histRun struct {
	handles []*template.Template // what each op returned (nil for none)
	outputs []string             // bytes written by exec ops ("" otherwise)
	results []string
}

// execHistory runs ops on the real API and returns the wire fields of the case.
func execHistory(ops []histOp) (fields []string, run *histRun) {
	run = &histRun{}
	canon := func(t *template.Template) string {
		if t == nil {
			return "H:nil"
		}
		for i, h := range run.handles {
			if h == t {
				return fmt.Sprintf("H:%d", i)
			}
		}
		return fmt.Sprintf("H:%d", len(run.handles))
	}
	get := func(i int) *template.Template {
		if i < 0 || i >= len(run.handles) {
			return nil
		}
		return run.handles[i]
	}
	fields = append(fields, fmt.Sprint(len(ops)))
	for _, op := range ops {
		var wire, res, out string
		var ret *template.Template
		dumpTrees := false
		func() {
			defer func() {
				if r := recover(); r != nil {
					res = classifyPanic(r)
				}
			}()
			t := get(op.h)
			switch op.kind {
			case "N":
				wire = "N:" + hx(op.name)
				ret = template.New(op.name)
				res = canon(ret)
			case "S":
				wire = fmt.Sprintf("S:%d:%s", op.h, hx(op.name))
				if t == nil {
					res = "badop"
					return
				}
				ret = t.New(op.name)
				res = canon(ret)
			case "P":
				if t == nil {
					wire, res = fmt.Sprintf("P:%d:E", op.h), "badop"
					return
				}
				wire = fmt.Sprintf("P:%d:%s", op.h, parsedWire(t.Name(), op.text))
				_, err := template.VerifParse(t, op.text)
				switch {
				case err == nil:
					res = "parseok"
				case strings.Contains(err.Error(), "cannot Parse after Execute"):
					res = "cannotparse"
				default:
					res = "parseerr"
				}
			case "C":
				wire = fmt.Sprintf("C:%d", op.h)
				if t == nil {
					res = "badop"
					return
				}
				c, err := t.Clone()
				if err != nil {
					res = "cannotclone"
				} else {
					ret = c
					res = canon(ret)
				}
			case "L":
				wire = fmt.Sprintf("L:%d:%s", op.h, hx(op.name))
				if t == nil {
					res = "badop"
					return
				}
				ret = t.Lookup(op.name)
				res = canon(ret)
			case "X":
				wire = fmt.Sprintf("X:%d", op.h)
				if t == nil {
					res = "badop"
					return
				}
				dumpTrees = true
				var buf bytes.Buffer
				func() {
					defer func() {
						if r := recover(); r != nil {
							res = classifyPanic(r)
							if template.VerifStateOf(t).EscapeErr == 1 {
								res = "exec" + res // the analysis had completed: text/template's execution panicked
							}
						}
					}()
					err := t.Execute(&buf, histData)
					res = classifyErr(err)
				}()
				out = buf.String()
			case "Y":
				wire = fmt.Sprintf("Y:%d:%s", op.h, hx(op.name))
				if t == nil {
					res = "badop"
					return
				}
				dumpTrees = true
				var buf bytes.Buffer
				func() {
					defer func() {
						if r := recover(); r != nil {
							res = classifyPanic(r)
							if m := t.Lookup(op.name); m != nil && template.VerifStateOf(m).EscapeErr == 1 {
								res = "exec" + res
							}
						}
					}()
					err := t.ExecuteTemplate(&buf, op.name, histData)
					res = classifyErr(err)
				}()
				out = buf.String()
			case "I":
				wire = fmt.Sprintf("I:%d", op.h)
				if t == nil {
					res = "badop"
					return
				}
				_ = t.Templates()
				_ = t.DefinedTemplates()
				_ = t.Name()
				res = "info"
			case "O":
				// (*Template).Option(name): configures the set; no state of the model changes (wire = an info op)
				wire = fmt.Sprintf("I:%d", op.h)
				if t == nil {
					res = "badop"
					return
				}
				t.Option(op.name)
				res = "info"
			case "Z":
				wire = fmt.Sprintf("Z:%d", op.h)
				if t == nil {
					res = "badop"
					return
				}
				t.CSPCompatible()
				res = "info"
			}
		}()
		// an op that returned a *Template (possibly nil, for Lookup) adds a client handle
		if strings.HasPrefix(res, "H:") {
			run.handles = append(run.handles, ret)
		}
		run.outputs = append(run.outputs, out)
		run.results = append(run.results, res)
		// state dump
		var st []string
		for i, h := range run.handles {
			if h == nil {
				continue
			}
			s := template.VerifStateOf(h)
			st = append(st, fmt.Sprintf("%d=%s%d%s%s", i, b01(s.Escaped), s.EscapeErr, b01(s.TreeNil), b01(template.VerifOwnTextTree(h) == nil)))
		}
		dump := strings.Join(st, ",")
		if dumpTrees && get(op.h) != nil {
			trees := template.VerifTextTrees(get(op.h))
			var names []string
			for n := range trees {
				names = append(names, n)
			}
			sort.Strings(names)
			dump += ";"
			for _, n := range names {
				dump += defWire(n, trees[n])
			}
		}
		if dump == "" {
			dump = "-"
		}
		fields = append(fields, wire, res, dump)
	}
	return fields, run
}

func init() {
	// the single input is the encoded op list (kind|h|hexname|hextext;...)
	reg("hist", 1, func(c *caseWriter, in []string) {
		ops := decodeOps(in[0])
		fields, _ := execHistory(ops)
		c.Case("hist", append([]string{hx(in[0])}, fields...)...)
	})
}

func encodeOps(ops []histOp) string {
	var p []string
	for _, o := range ops {
		p = append(p, fmt.Sprintf("%s|%d|%s|%s", o.kind, o.h, hx(o.name), hx(o.text)))
	}
	return strings.Join(p, ";")
}

func decodeOps(s string) []histOp {
	var ops []histOp
	if s == "" {
		return ops
	}
	for _, p := range strings.Split(s, ";") {
		f := strings.Split(p, "|")
		if len(f) != 4 {
			return nil // not an encoded history (a directed-search seed of another kind)
		}
		var h int
		fmt.Sscan(f[1], &h)
		ops = append(ops, histOp{f[0], h, unhx(f[2]), unhx(f[3])})
	}
	return ops
}

// ---- the pool of definitions and the history generator ---------------------

// definition texts chosen to exercise every analysis outcome
var defPool = []string{
	`plain text`,
	`<b>{{.A}}</b>`,
	`<a href="{{.U}}">{{.A}}</a>`,
	`<a href="/p?q={{.A}}">x</a>`,
	`<a href="/p/{{.A}}">x</a>`,
	`<img src="{{.S}}" alt='{{.A}}'>`,
	`<script>var x = 1;</script>{{.A}}`,
	`<script>{{.J}}</script>`,
	`<script>{{.A}}</script>`,
	`<style>{{.A}}</style>`,
	`<title>{{.A}}</title><textarea>{{.B}}</textarea>`,
	`<!-- c {{.A}} -->after`,
	`{{define "h"}}{{.A}}{{end}}<p>{{template "h" .}}</p>`,
	`{{define "h"}}{{.}}{{end}}<p title="{{template "h" .A}}">{{template "h" .B}}</p>`,
	`{{define "open"}}<b {{end}}{{define "X"}}{{template "open"}}>k</b>{{template "open"}}{{.A}}>z</b>{{end}}{{template "X" .}}`,
	`{{define "Y"}}<a href="{{end}}{{define "X"}}{{template "Y"}}/x">l</a>{{end}}top`,
	`{{define "Y"}}<a href="{{end}}start`,
	`{{define "bad"}}<a href="{{.U}}{{end}}{{define "callsbad"}}{{template "bad" .}}{{end}}ok`,
	`{{if .T}}<b>{{else}}<i>{{end}}x`,
	`{{if .T}}<a href="{{else}}<a title="{{end}}{{.A}}">`,
	`{{if .T}}<b title="{{.A}}">{{else}}<b class="{{.B}}">{{end}}x</b>`,
	`{{range .L}}<li>{{.}}</li>{{end}}`,
	`{{range .L}}<a href="{{end}}`,
	`{{range .L}}{{.}}{{else}}none{{end}}`,
	`{{with .A}}<i>{{.}}</i>{{end}}`,
	`{{range .L}}{{break}}{{end}}`,
	`{{range .L}}{{if .}}{{continue}}{{end}}{{.}}{{end}}`,
	`{{define "rec"}}{{if .F}}{{template "rec" .}}{{end}}r{{end}}{{template "rec" .}}`,
	`{{define "rec2"}}<b{{if .F}}{{template "rec2" .}}{{end}}{{end}}{{template "rec2" .}}`,
	`{{template "missing" .}}`,
	`{{define "empty"}}{{end}}{{template "empty"}}x`,
	`<a href="javascript:{{.A}}">`,
	`<a href="x{{.A}}">`,
	`<a href=" {{.A}}">`,
	`<a href={{.U}}>unquoted</a>`,
	`<a {{.A}}="x">`,
	`<{{.A}}>`,
	`<div onclick="{{.A}}">`,
	`<div style="{{.Y}}">s</div>`,
	`<div style="color:{{.A}}">`,
	`<unknownelement>{{.A}}</unknownelement>`,
	`<a target="{{.B}}">t</a>`,
	`<link rel="stylesheet" href="{{.R}}">`,
	`<link rel="alternate" href="{{.S}}">`,
	`<b id="{{.I}}">{{.H}}</b>`,
	`{{.A | html}}`,
	`<a href="{{.S | urlquery}}">u</a>`,
	`{{html .A}}`,
	`{{.A | html | print}}`,
	`{{$x := .A}}{{$x}}`,
	`<p>{{.A}}`,
	`<b`,
	`x</script>`,
	`<script>var t = ` + "`" + `a${1}` + "`" + `;</script>`,
	`<script>var t = ` + "`" + `unbalanced</script>`,
	`{{define "h2"}}<i>{{.}}</i>{{end}}{{template "h2" .A}}{{template "h2" .B}}`,
	`{{define "attr"}}title="{{.}}"{{end}}<b {{template "attr" .A}}>b</b>`,
	`{{block "blk" .}}default {{.A}}{{end}}`,
	`{{define "blk"}}override <b>{{.B}}</b>{{end}}`,
	`{{/* comment */}}c`,
	`<a href="/foo/{{template "lnk" .}}">a</a><a href="{{template "lnk" .}}">b</a>{{define "lnk"}}{{.U}}{{end}}`,
	// one helper included from the SAME non-text context by several top-level templates (the derived
	// copy of the helper is shared between analyses that happen in separate calls)
	`{{define "h"}}{{.A}}{{end}}{{define "X"}}<a title="{{template "h" .}}">x</a>{{end}}{{define "Y"}}<a title="{{template "h" .}}">y</a>!{{end}}<a title="{{template "h" .}}">m</a>`,
	`{{define "lnk"}}{{.A}}{{end}}{{define "X"}}<a href="/p?q={{template "lnk" .}}">x</a>{{end}}{{define "Y"}}<i>y</i><a href="/p?q={{template "lnk" .}}">y</a>{{end}}<a href="/p?q={{template "lnk" .}}">m</a>`,
	`{{define "h2"}}<i>{{.}}</i>{{end}}{{define "X"}}<textarea>{{template "h2" .A}}</textarea>{{end}}{{define "Y"}}<textarea>{{template "h2" .B}}</textarea>.{{end}}<textarea>{{template "h2" .A}}</textarea>`,
	// every way the analysis can fail (the property's list), in more than one spelling: loop re-entry in
	// an attribute value, ambiguous URL prefixes (also after the same plain prefix was analysed before),
	// direct and indirect recursion with an uncomputable output context, empty / undefined callees
	`<a href="{{range .L}}{{.}}:{{end}}">r</a>`,
	`<a href='{{range .L}}{{.}}:{{else}}/none{{end}}'>r</a>`,
	`{{define "X"}}<a href="{{range .L}}{{.}}:{{end}}">x</a>{{end}}{{define "Y"}}<ul><li>{{template "X" .}}</li></ul>{{end}}{{define "Z"}}<b>{{.A}}</b>{{end}}m`,
	`<a title="{{range .L}}x"{{end}}>r</a>`,
	`{{range .L}}<b {{end}}>`,
	`<a href="{{if .T}}/a/{{else}}/b?q={{end}}{{.A}}">amb</a>`,
	`<a href="/a/{{.A}}">1</a><a href="{{if .T}}/a/{{else}}/b?q={{end}}{{.A}}">2</a>`,
	`{{define "X"}}<a href="/a/{{.A}}">plain</a>{{end}}{{define "Y"}}<a href="{{if .T}}/a/{{else}}/b?q={{end}}{{.A}}">amb</a>{{end}}{{define "Z"}}<p>{{template "Y" .}}</p>{{end}}m`,
	`{{define "X"}}<script src="/a/{{.A}}"></script>{{end}}{{define "Y"}}<script src="{{if .T}}/a/{{else}}//{{end}}{{.A}}"></script>{{end}}m`,
	`{{define "X"}}{{if .F}}{{template "Y" .}}{{end}}{{.A}}<a href="{{end}}{{define "Y"}}{{template "X" .}}{{end}}{{define "Z"}}{{template "X" .}}#">z</a>{{end}}m`,
	`{{define "X"}}{{if .F}}{{template "X" .}}{{end}}{{.A}}<a href="{{end}}{{define "Z"}}{{template "X" .}}#">z</a>{{end}}m`,
	`{{template "X" .}}#">x</a>{{define "X"}}{{if .F}}{{template "Y" .}}{{end}}{{.A}}<a href="{{end}}{{define "Y"}}<i>{{template "Z" .}}{{end}}{{define "Z"}}{{template "X" .}}{{end}}`,
	`{{define "X"}}{{template "empty" .}}x{{end}}{{define "Y"}}<b>{{template "missing" .}}</b>{{end}}{{define "empty"}}{{end}}m`,
	`{{define "X"}}<a href="j{{.A}}">x</a>{{end}}{{define "Y"}}<a href="{{.A}}">y</a>{{end}}{{define "Z"}}<a href="&#106;ava{{.A}}">z</a>{{end}}m`,
	`{{define "X"}}<b {{if .T}}title{{else}}onclick{{end}}="{{.A}}">x</b>{{end}}{{define "Y"}}<b title="{{.A}}">y</b>{{end}}m`,
	`{{define "X"}}{{if .T}}<script>{{else}}<p>{{end}}{{.A}}{{end}}{{define "Y"}}<p>{{.A}}</p>{{end}}m`,
	// a refused member and a healthy one that reach the same helper from the same attribute context; templates
	// that end inside a comment, a tag, an attribute value, a script (every non-text end state)
	`{{define "h"}}{{.A}}{{end}}{{define "X"}}<b title="{{template "h" .}}">x</b><i {{end}}{{define "Y"}}<b title="{{template "h" .}}">y</b>{{end}}{{define "Z"}}<ul><li title="{{template "h" .}}">z</li></ul>{{end}}m`,
	// the same with one more level: the refused member and the healthy one reach the helper's derived copy only THROUGH
	// a middle template, which the second analysis finds in the memo (it never walks into the middle template again)
	`{{define "h"}}{{.A}}{{end}}{{define "Y"}}<b title="{{template "h" .}}">y</b>{{end}}{{define "X"}}{{template "Y" .}}<a title="{{end}}{{define "Z"}}{{template "Y" .}}!{{end}}m`,
	`{{define "lnk"}}{{.A}}{{end}}{{define "Y"}}<a href="/p?q={{template "lnk" .}}">y</a>{{end}}{{define "X"}}{{template "Y" .}}<!-- {{end}}{{define "Z"}}<p>{{template "Y" .}}</p>{{end}}m`,
	`{{define "X"}}<b>ok</b><!-- open{{end}}{{define "Y"}}{{template "X" .}}{{end}}{{define "Z"}}<p>{{.A}}</p>{{end}}<i>m</i><!--`,
	`{{define "X"}}<p>{{.A}}</p><!-- c {{end}}{{define "Y"}}<script>var a = 1;{{end}}{{define "Z"}}<textarea>{{.A}}{{end}}<title>t`,
	`{{define "X"}}<b>{{. | html}}</b>{{end}}{{define "Y"}}<div>{{.H}}</div>{{end}}{{define "Z"}}<p>{{.H | html}}</p><div>{{.H}}</div>{{end}}<i>{{.H}}</i>`,
	// static text that only the CSP-compatible mode refuses; a key the data does not have (Option missingkey=...)
	`{{define "X"}}<a onclick="f()">{{.A}}</a>{{end}}{{define "Y"}}<p>{{.A}}</p>{{end}}<a href="javascript:void(0)">{{.B}}</a>`,
	`{{define "X"}}<p>{{.Nope}}</p>{{end}}{{define "Y"}}<i>{{.A}}</i>{{end}}<b>{{.Nope}}{{.B}}</b>`,
	// helpers that are literal text only, whose text the analysis REWRITES in an HTML text context (a comment is
	// elided, a '<' that starts no tag is escaped) and keeps verbatim elsewhere, called from different contexts by
	// different members (a tree shared between derived copies, callers, or the members of a clone family shows)
	`{{define "st"}}<!-- c --> 1 < 2 {{end}}{{define "X"}}<p>{{template "st"}}</p>{{end}}{{define "Y"}}<script>{{template "st"}}</script>{{end}}{{define "Z"}}<textarea>{{template "st"}}</textarea>{{end}}<i>{{template "st"}}</i>`,
	`{{define "st"}}1 < 2{{end}}{{define "X"}}<a title="{{template "st"}}">x</a>{{end}}{{define "Y"}}<p>{{template "st"}}</p>{{end}}{{define "Z"}}<a title='{{template "st"}}'>z</a>{{end}}m`,
	`{{define "st"}}a <!-- gone --> b{{end}}{{define "X"}}<style>{{template "st"}}</style>{{end}}{{define "Y"}}<b>{{template "st"}}</b>{{end}}{{define "Z"}}<title>{{template "st"}}</title>{{end}}{{template "st"}}`,
	`{{define "st"}}x < y{{end}}{{define "X"}}<b>{{template "st"}}</b>{{end}}{{define "Y"}}<script>if ({{template "st"}}) {}</script>{{end}}{{define "Z"}}{{template "X" .}}{{template "Y" .}}{{end}}top`,
}

var histNames = []string{"main", "h", "X", "Y", "Z", "st", "bad", "callsbad", "rec", "open", "blk", "h2", "lnk", "missing", "other", ""}

// genHistory builds one random history of about n ops.
func genHistory(n int) []histOp {
	var ops []histOp
	ops = append(ops, histOp{kind: "N", name: pick([]string{"main", "main", "X", ""})})
	nh := 1 // handles created so far (approximate: failed ops create none)
	executed := false
	for len(ops) < n {
		r := rng.Intn(100)
		h := rng.Intn(nh)
		switch {
		case !executed && r < 45 || r < 12:
			ops = append(ops, histOp{kind: "P", h: h, text: pick(defPool)})
		case r < 55:
			if rng.Intn(2) == 0 {
				ops = append(ops, histOp{kind: "X", h: h})
			} else {
				ops = append(ops, histOp{kind: "Y", h: h, name: pick(histNames)})
			}
			executed = true
		case r < 75:
			ops = append(ops, histOp{kind: "Y", h: h, name: pick(histNames)})
			executed = true
		case r < 82:
			ops = append(ops, histOp{kind: "L", h: h, name: pick(histNames)})
			nh++
		case r < 88:
			ops = append(ops, histOp{kind: "S", h: h, name: pick(histNames)})
			nh++
		case r < 94:
			ops = append(ops, histOp{kind: "C", h: h})
			nh++
		case r < 97:
			ops = append(ops, histOp{kind: "I", h: h})
		case r < 98:
			if rng.Intn(2) == 0 {
				ops = append(ops, histOp{kind: "O", h: h, name: pick([]string{"missingkey=zero", "missingkey=error", "missingkey=default"})})
			} else {
				ops = append(ops, histOp{kind: "Z", h: h})
			}
		default:
			ops = append(ops, histOp{kind: "N", name: pick(histNames)})
			nh++
		}
	}
	return ops
}

// genHistories emits the history cases: every pool definition analysed alone and by each of its
// names, pairs of definitions, and random histories.
func genHistories(c *caseWriter, quick bool) {
	emitH := func(ops []histOp) { emit(c, "hist", encodeOps(ops)) }
	for _, d := range defPool {
		emitH([]histOp{{kind: "N", name: "main"}, {kind: "P", h: 0, text: d}, {kind: "X", h: 0}, {kind: "X", h: 0}})
		for _, n := range histNames {
			emitH([]histOp{{kind: "N", name: "main"}, {kind: "P", h: 0, text: d}, {kind: "Y", h: 0, name: n}, {kind: "X", h: 0}, {kind: "Y", h: 0, name: n}})
		}
		emitH([]histOp{{kind: "N", name: "main"}, {kind: "Z", h: 0}, {kind: "P", h: 0, text: d}, {kind: "X", h: 0}})
		emitH([]histOp{{kind: "N", name: "main"}, {kind: "P", h: 0, text: d}, {kind: "C", h: 0}, {kind: "X", h: 1}, {kind: "X", h: 0}, {kind: "P", h: 0, text: "late"}})
	}
	n := 1200
	if !quick {
		n = 60000
	}
	for i := 0; i < n; i++ {
		emitH(genHistory(3 + rng.Intn(10)))
	}
}
