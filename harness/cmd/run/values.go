//go:build tmpl || allprops

package main

import (
	"errors"
	"fmt"
	"reflect"
	"strings"

	"github.com/google/safehtml"
	"github.com/google/safehtml/template"
)

// Wire form of the model's value ADT (coq/model/TSanitizers.v):
//   str:<hex> | safe:<kind>:<hex> | ptr:<value> | int:<decimal> | stringer:<hex> | err:<hex> | nil
// kind in html script style stylesheet url tru identifier.

type verifStringer struct{ s string }

func (v verifStringer) String() string { return v.s }

func safeValue(kind, s string) interface{} {
	switch kind {
	case "html":
		return safehtml.VerifRawHTML(s)
	case "script":
		return safehtml.VerifRawScript(s)
	case "style":
		return safehtml.VerifRawStyle(s)
	case "stylesheet":
		return safehtml.VerifRawStyleSheet(s)
	case "url":
		return safehtml.VerifRawURL(s)
	case "tru":
		return safehtml.VerifRawTrustedResourceURL(s)
	case "identifier":
		return safehtml.VerifRawIdentifier(s)
	}
	panic("bad kind " + kind)
}

var safeKinds = []string{"html", "script", "style", "stylesheet", "url", "tru", "identifier"}

func valueFromWire(w string) interface{} {
	switch {
	case w == "nil":
		return nil
	case strings.HasPrefix(w, "str:"):
		return unhx(w[4:])
	case strings.HasPrefix(w, "safe:"):
		p := strings.SplitN(w[5:], ":", 2)
		return safeValue(p[0], unhx(p[1]))
	case strings.HasPrefix(w, "ptr:"):
		v := valueFromWire(w[4:])
		p := reflect.New(reflect.TypeOf(v))
		p.Elem().Set(reflect.ValueOf(v))
		return p.Interface()
	case strings.HasPrefix(w, "int:"):
		var n int
		fmt.Sscan(w[4:], &n)
		return n
	case strings.HasPrefix(w, "stringer:"):
		return verifStringer{unhx(w[9:])}
	case strings.HasPrefix(w, "err:"):
		return errors.New(unhx(w[4:]))
	}
	panic("bad value wire " + w)
}

func init() {
	// sanitizer_apply: <function name> <value wire> -> ok|err|missing, output
	reg("sanitizer_apply", 2, func(c *caseWriter, in []string) {
		out, err, found := template.VerifApplySanitizer(in[0], valueFromWire(in[1]))
		outcome := "ok"
		if !found {
			outcome = "missing"
		} else if err != nil {
			outcome, out = "err", ""
		}
		c.Case("sanitizer_apply", hx(in[0]), hx(in[1]), outcome, hx(out))
	})
}

// probeValues returns value wires around the contents s.
func probeValues(s string) []string {
	h := hx(s)
	l := []string{"str:" + h, "ptr:str:" + h, "stringer:" + h, "err:" + h, "ptr:stringer:" + h}
	for _, k := range safeKinds {
		l = append(l, "safe:"+k+":"+h, "ptr:safe:"+k+":"+h, "ptr:ptr:safe:"+k+":"+h)
	}
	return l
}

var sanitizerNames = []string{"_sanitizeHTML", "_sanitizeRCDATA", "_sanitizeHTMLValOnly", "_sanitizeIdentifier", "_sanitizeScript", "_sanitizeStyle", "_sanitizeStyleSheet",
	"_sanitizeTrustedResourceURL", "_sanitizeTrustedResourceURLOrURL", "_sanitizeURL", "_sanitizeURLSet", "_sanitizeHTMLComment", "_queryEscapeURL", "_normalizeURL",
	"_validateTrustedResourceURLSubstitution", "_evalArgs", "_sanitizeAsyncEnum", "_sanitizeDirEnum", "_sanitizeLoadingEnum", "_sanitizeTargetEnum"}

func genSanitizerApply(c *caseWriter, quick bool) {
	contents := append([]string{}, hostile...)
	contents = append(contents, "async", "auto", "ltr", "rtl", "eager", "lazy", "_blank", "_self", "_Blank", "x.js 2x, y.js 1.5x", "..", "a/%2e%2E/b", "\"><b onmouseover=\"alert(1)\">", "</script>", "a,b", "color:red;")
	contents = append(contents, extraSeeds...)
	for _, name := range sanitizerNames {
		for _, s := range contents {
			for _, w := range probeValues(s) {
				emit(c, "sanitizer_apply", name, w)
			}
		}
		emit(c, "sanitizer_apply", name, "nil")
		emit(c, "sanitizer_apply", name, "int:42")
		emit(c, "sanitizer_apply", name, "ptr:int:-7")
	}
	emit(c, "sanitizer_apply", "_noSuchFunction", "str:-")
}
