//go:build c14 || allprops

package main

import (
	"strings"

	"github.com/google/safehtml"
)

// C14: data interpolated after a static URL prefix stays inside its URL component.
//
// Streams
//   url_attr  <element> <attribute> <rel> <quote dq|sq> <static prefix> <value wire>
//             -> <text before the action> <text after it> <outcome> <bytes written>
//             the template  <E [rel="R"] A=Q P{{.}} Q>[</E>]  run through the real engine
//   url_proc  <string> -> NormalizeURL(s), NormalizeURL(NormalizeURL(s)), QueryEscapeURL(s)
// plus the existing correspondence streams url_prefix, sanitizer_for, m_normalize, m_query_escape.

var c14Void = map[string]bool{"img": true, "link": true, "input": true, "source": true, "area": true, "base": true, "embed": true, "track": true}

func c14Text(e, a, rel, q, p string) (pre, post string) {
	quote := map[string]string{"dq": `"`, "sq": `'`}[q]
	pre = "<" + e
	if rel != "" {
		pre += ` rel="` + rel + `"`
	}
	pre += " " + a + "=" + quote + p
	post = quote + ">"
	if !c14Void[e] {
		post += "</" + e + ">"
	}
	return
}

func init() {
	props["C14"] = runC14
	reg("url_attr", 6, func(c *caseWriter, in []string) {
		pre, post := c14Text(in[0], in[1], in[2], in[3], in[4])
		r := runTemplate(pre+"{{.}}"+post, "", valueFromWire(in[5]), false)
		c.Case("url_attr", hx(in[0]), hx(in[1]), hx(in[2]), hx(in[3]), hx(in[4]), hx(in[5]), hx(pre), hx(post), r.outcome, hx(r.out))
	})
	// url_range <element> <attribute> <static prefix> <static text after the action inside the loop> <hostile item>:
	//   <E A="PREFIX{{range .}}{{.}}SEP{{end}}">  executed with the inert list [a b] and with [a HOSTILE]: the second
	//   iteration's data stands after whatever the first iteration wrote
	reg("url_range", 5, func(c *caseWriter, in []string) {
		text := "<" + in[0] + " " + in[1] + `="` + in[2] + "{{range .}}{{.}}" + in[3] + `{{end}}">`
		ri := runTemplate(text, "", []string{"a", "b"}, false)
		rh := runTemplate(text, "", []string{"a", in[4]}, false)
		c.Case("url_range", hx(in[0]), hx(in[1]), hx(in[2]), hx(in[3]), hx(in[4]), ri.outcome, hx(ri.out), rh.outcome, hx(rh.out))
	})
	// url_eff <element> <attribute> <construct: how the static prefix is put together> <text1> <text2> <cond 0|1> <value wire>:
	//   the static text that precedes the action at run time is not one piece of the template but is put together
	//   by a branch or by a {{template}} call:
	//     if    <E A="{{if .C}}T1{{else}}T2{{end}}{{.V}}">      effective prefix: T1 when C, T2 otherwise
	//     call  {{define "q"}}T2{{end}}<E A="T1{{template "q" .}}{{.V}}">   effective prefix: T1 T2
	//     with  <E A="T1{{with .C}}T2{{end}}{{.V}}">             effective prefix: T1 T2 when C, T1 otherwise
	//   judged against the straight-line template with the effective prefix (the engine may refuse more, never less)
	reg("url_eff", 7, func(c *caseWriter, in []string) {
		e, a, how, t1, t2, cond, w := in[0], in[1], in[2], in[3], in[4], in[5] == "1", in[6]
		var text, eff string
		switch how {
		case "if":
			text = "<" + e + " " + a + `="{{if .C}}` + t1 + "{{else}}" + t2 + `{{end}}{{.V}}">`
			eff = t2
			if cond {
				eff = t1
			}
		case "call":
			text = `{{define "q"}}` + t2 + "{{end}}<" + e + " " + a + `="` + t1 + `{{template "q" .}}{{.V}}">`
			eff = t1 + t2
		default:
			text = "<" + e + " " + a + `="` + t1 + "{{with .C}}" + t2 + `{{end}}{{.V}}">`
			eff = t1
			if cond {
				eff = t1 + t2
			}
		}
		if !c14Void[e] {
			text += "</" + e + ">"
		}
		if eff == "" {
			return // no static prefix at all: the action is the whole value, which is C11's and C02's business
		}
		r := runTemplate(text, "", map[string]interface{}{"C": cond, "V": valueFromWire(w)}, false)
		c.Case("url_eff", hx(e), hx(a), how, hx(t1), hx(t2), in[5], hx(w), hx(eff), hx(text), r.outcome, hx(r.out))
	})
	reg("url_proc", 1, func(c *caseWriter, in []string) {
		n1 := safehtml.VerifNormalizeURL(in[0])
		c.Case("url_proc", hx(in[0]), hx(n1), hx(safehtml.VerifNormalizeURL(n1)), hx(safehtml.VerifQueryEscapeURL(in[0])))
	})
}

type c14Class struct{ e, a, rel string }

func runC14(c *caseWriter) (string, bool, map[string]int) {
	thorough := tier == "thorough"
	classes := []c14Class{{"a", "href", ""}, {"script", "src", ""}, {"img", "src", ""}, {"form", "action", ""},
		{"link", "href", "stylesheet"}, {"link", "href", "alternate"}, {"iframe", "src", ""}}
	if thorough {
		classes = append(classes, c14Class{"area", "href", ""}, c14Class{"video", "src", ""}, c14Class{"button", "formaction", ""}, c14Class{"input", "formaction", ""},
			c14Class{"embed", "src", ""}, c14Class{"base", "href", ""}, c14Class{"link", "href", "alternate stylesheet"}, c14Class{"audio", "src", ""}, c14Class{"source", "src", ""}, c14Class{"link", "href", "icon"})
	}
	urlCls, truCls := classes[0], classes[1]

	seenPrefix := map[string]bool{}
	seenData := map[string]bool{}
	seenCtx := map[string]bool{}
	n := 0
	str := func(s string) string { return "str:" + hx(s) }
	one := func(cl c14Class, p, w string) {
		n++
		q := "dq"
		if n%3 == 0 {
			q = "sq"
		}
		emit(c, "url_attr", cl.e, cl.a, cl.rel, q, p, w)
		if !seenPrefix[p] {
			seenPrefix[p] = true
			emit(c, "url_prefix", "url", p)
			emit(c, "url_prefix", "tru", p)
			emit(c, "url_prefix", "decode", p)
			emit(c, "url_prefix", "charref", p)
		}
		// the context the engine is in just before the action, and the chain it chooses
		k := cl.e + "\x00" + cl.a + "\x00" + cl.rel + "\x00" + p
		if !seenCtx[k] && !strings.ContainsAny(p, "\"'") {
			seenCtx[k] = true
			pre, _ := c14Text(cl.e, cl.a, cl.rel, "dq", p)
			if v, ok := step(vctx{}, pre); ok {
				emit(c, "sanitizer_for", ctxIn(v))
			}
		}
	}
	data := func(s string) {
		if !seenData[s] {
			seenData[s] = true
			emit(c, "url_proc", s)
			emit(c, "m_normalize", s)
			emit(c, "m_query_escape", s)
		}
	}
	run := func(cl c14Class, p, d string) {
		data(d)
		one(cl, p, str(d))
	}

	// (0) canonical witnesses of the recorded findings, and the documentation's examples
	run(urlCls, "/foo&quest;x=", "1&admin=1#frag") // D16
	run(urlCls, "/foo&num;", "a#b&c=d")            // D16
	run(urlCls, "/foo&#63;x=", "1&admin=1")        // D16
	run(urlCls, "/x&#65;", "%41")                  // D16, other direction: escaped although the decoded prefix has no ? or #
	run(truCls, "/a/.", ".")                       // D10
	run(truCls, "/a/%2e", ".")                     // D10
	run(truCls, "/a/&period;", ".")                // D10
	run(urlCls, "/foo?x=", "1&admin=1#frag")
	run(urlCls, "/foo/", "a b/c?d=e#f")
	run(truCls, "/a/", "b/c")
	run(truCls, "/a/", "..")
	run(truCls, "https://a.b/", "x.js?y#z")
	run(urlCls, "/", "/evil.com/x") // normalised only: the data becomes the authority (observation, class +normalised_authority_not_fixed)
	run(urlCls, "http:", "//evil.com/x")

	hostileData := []string{"..", "%2e%2e", "%2E.", ".", "%2e", "/", "\\", "?", "#", "&", "=", "javascript:alert(1)", " ", "\t", "\n", "\"", "'", "<", ">", "`", "(", ")",
		"é", "\xff", "\x00", "\x7f", "%41", "%4", "%zz", "%", "%%41", "a%4", "%412", "", "a", "//evil.com/x", "/../../x", "a&b=c#d", ":", "@evil.com", "[", "]", "{{", "&amp;", "&quest;", "lt;", "#x3c;",
		"1&admin=1#frag", "a/../b", "x.js", "~_-.", "+", ";", ",", "$", "!", "*", "|", "^", "{", "}", " ", "\U0001f600"}
	coreData := []string{"a&b=c#d/../%2e.%41\"<", ".", "/x?y#z"}

	tails := []string{"", "&quest;", "&num;", "&sol;", "&colon;", "&Tab;", "&NewLine;", "&amp;", "&amp", "&quest", "&#63;", "&#x3f;", "&#X3F;", "&#35", "&#x23;", "&#9;", "&#x20;", "&#32", "&nbsp;", "&nbsp",
		"&", "&#", "&#x", "&#X", "&a", "&am", "&#6", "&#x3", "&1", "&;", "&quest;x", "%", "%4", "%41", "%2e", "%2E", "%zz", "%%", "%4g", " ", "\t", "\n", "\r", "\f", "\v", "\x00", "\x1f", "\x7f", "&period;", ".", "..",
		"&#0;", "&#x7f;", "&#127;", "&#x80;", "&#xa0;", "&lt;", "&gt;", "&quot;", "&apos;", "&percnt;", "&percnt;4", "&#37;", "&#x25;4", "&NotANameAtAll;", "é", " ", " "}

	// (1) directed-search seeds: as prefix, inside a prefix, as data
	for _, s := range extraSeeds {
		for _, v := range seedVariants(s) {
			for _, cl := range []c14Class{urlCls, truCls, classes[3]} {
				run(cl, v, "x:y")
				run(cl, "/p"+v, "x")
				run(cl, "/p/"+v, "41")
				run(cl, v+"/", "x")
				run(cl, "/p?q="+v, "a&b")
				run(cl, "/p/", v)
				run(cl, "/p?q=", v)
				run(cl, "/p#", v)
			}
			data(v)
			data("a" + v + "41")
		}
	}

	// (2) exhaustive small scope over a distinguishing alphabet of prefix tokens
	alpha := []string{"/", "?", "#", ":", "a", ".", "%", "4", "&", ";", " ", "&quest;"}
	depth := 3
	if thorough {
		depth = 4
	}
	product(alpha, depth, func(p string) {
		if p == "" {
			return
		}
		run(urlCls, p, coreData[0])
		run(truCls, p, coreData[1])
		if thorough {
			run(classes[3], p, coreData[2])
			run(classes[4], p, coreData[0])
		}
	})
	// the same for the processors: every string of <= 4 symbols over the look-ahead alphabet
	pdepth := 4
	if thorough {
		pdepth = 5
	}
	product([]string{"%", "4", "f", "G", "g", "/", "&", " "}, pdepth, func(s string) { data(s) })

	// (2a) prefixes put together by a branch or a call (url_eff): the same prefix spelled with different character
	// references in the two branches, a branch that ends in an incomplete reference or escape, a callee that
	// contributes the first ? or # or ends in an incomplete escape
	{
		effData := []string{"t", "lt;x", "p", "quot;", "1&admin=1#frag", "v&admin=1#frag", "a b", "../x", "41", "x"}
		spell := [][2]string{{"/x?a=&amp;l", "/x?a=&l"}, {"/x?a=1&amp;b=", "/x?a=1&#38;b="}, {"/x?a=1&amp;b=", "/x?a=1&#x26;b="}, {"/p/&amp;quo", "/p/&quo"},
			{"/x%252", "/x&#37;2"}, {"/x?a=&amp;nbs", "/x?a=&nbs"}, {"/p?q=", "/p&quest;q="}, {"/p?q=", "/p?q="}, {"/p/", "/p/"}, {"/a/&#x", "/a/&amp;#x"}, {"/p?q=&amp;g", "/p?q=&g"}}
		k := 0
		for _, cl := range []c14Class{urlCls, truCls, classes[3]} {
			for _, sp := range spell {
				for _, d := range effData {
					k++
					if !thorough && k%2 == 0 {
						continue
					}
					for _, cond := range []string{"0", "1"} {
						emit(c, "url_eff", cl.e, cl.a, "if", sp[0], sp[1], cond, str(d))
						emit(c, "url_eff", cl.e, cl.a, "if", sp[1], sp[0], cond, str(d))
					}
				}
			}
			for _, p := range []string{"/x", "", "/p/", "/p?z=1"} {
				for _, q := range []string{"?a=1&amp;b=", "#", "?q=", "%", "%2", "&am", "&amp;", "/sub/", "", "&#x", "?", "&quest;q="} {
					for _, d := range effData {
						k++
						if !thorough && k%3 != 0 {
							continue
						}
						emit(c, "url_eff", cl.e, cl.a, "call", p, q, "0", str(d))
						emit(c, "url_eff", cl.e, cl.a, "with", p, q, "1", str(d))
						emit(c, "url_eff", cl.e, cl.a, "with", p, q, "0", str(d))
					}
				}
			}
		}
	}

	// (2b) long prefixes: an incomplete character reference or percent escape at the end of the prefix,
	// padded with leading zeros / preceded by long runs (a validator that looks at a window of the
	// prefix only, or that gives up on long input, shows here)
	longTails := []string{"&#x", "&#X", "&#", "&", "&am", "&quest", "&#x2", "&#3", "%", "%4", "&#x0", "&#0"}
	pads := []int{1, 7, 8, 15, 16, 27, 28, 29, 30, 31, 32, 33, 34, 48, 63, 64, 65, 100, 255, 256, 257, 1000, 4096}
	for ti, t := range longTails {
		for pi, k := range pads {
			if !thorough && (ti+pi)%3 != 0 && k != 30 && k != 31 && k != 32 && k != 33 {
				continue
			}
			zeros := strings.Repeat("0", k)
			as := strings.Repeat("a", k)
			cands := []string{"/p?q=" + as + t, as + "/" + t, "/p/" + as + "?x=" + as + t}
			if strings.HasPrefix(t, "&#") {
				cands = append(cands, "/p?q="+t+zeros, "/p/"+t+zeros, "/p?q="+as+t+zeros)
			}
			for ci, p := range cands {
				run(classes[(ti+pi+ci)%len(classes)], p, []string{"23zz", "26zz", "35;x", "41", "x3f;y"}[(ti+pi+ci)%5])
				run(urlCls, p, "23zz")
			}
		}
	}

	// (2c) an action inside a loop with static text after it: later iterations stand after a longer prefix
	for _, cl := range []c14Class{{"a", "href", ""}, {"img", "src", ""}, {"form", "action", ""}, {"script", "src", ""}, {"iframe", "src", ""}} {
		for _, pre := range []string{"/p/", "", "/p", "https://h.example/d/", "/p/x"} {
			for _, sep := range []string{"?", "?q=", "#", "/", "&amp;", ";", "?a=1&amp;b="} {
				for _, h := range []string{"b&c=d#e", "b#f", "b/../..", "b?x=y", "b&amp;c"} {
					emit(c, "url_range", cl.e, cl.a, pre, sep, h)
				}
			}
		}
	}
	// (3) the prefix grammar: scheme x host x path x query x fragment, then a tail
	schemes := []string{"http:", "https:", "mailto:", "javascript:", "JavaScript:", "data:", "java", "j", ""}
	hosts := []string{"", "//a.b", "//a.b/", "//a.b:80/d/"}
	paths := []string{"", "/", "/a", "/a/", "a/b", "/a/b/c."}
	queries := []string{"", "?", "?x=", "?x=1&amp;y="}
	frags := []string{"", "#", "#f"}
	i := 0
	for _, s := range schemes {
		for _, h := range hosts {
			for _, pa := range paths {
				for _, qu := range queries {
					for _, fr := range frags {
						base := s + h + pa + qu + fr
						ts := []string{"", tails[i%len(tails)], tails[(i*7+3)%len(tails)]}
						if thorough {
							ts = []string{""}
							for k := 0; k < 12; k++ {
								ts = append(ts, tails[(i*13+k*5+1)%len(tails)])
							}
						}
						for j, t := range ts {
							p := base + t
							if p == "" {
								continue
							}
							cl1 := classes[(i+j)%len(classes)]
							cl2 := classes[(i+j+1)%len(classes)]
							run(cl1, p, hostileData[(i+j)%len(hostileData)])
							run(cl2, p, coreData[0])
							run(cl1, p, hostileData[(i*5+j*11+1)%len(hostileData)])
							i++
						}
					}
				}
			}
		}
	}

	// (4) every tail after representative bases, in every class; every hostile string and every single byte as data
	bases := []string{"/p", "/p/", "/p?q=", "/p#f", "https://a.b/", "//a.b/d/", "x", ""}
	for _, b := range bases {
		for _, t := range tails {
			if b+t == "" {
				continue
			}
			for ci, cl := range classes {
				run(cl, b+t, coreData[(ci+len(t))%len(coreData)])
			}
		}
	}
	dataBases := []string{"/p/", "/p?q=", "/p#", "https://a.b/", "mailto:", "/p/&quest;", "/p/."}
	for _, cl := range classes {
		for _, b := range dataBases {
			for _, d := range hostileData {
				run(cl, b, d)
			}
		}
	}
	for b := 0; b < 256; b++ {
		d := string([]byte{byte(b)})
		for _, cl := range []c14Class{urlCls, truCls, classes[3]} {
			run(cl, "/p/", d)
			run(cl, "/p?q=", d)
			run(cl, "/p#", "x"+d+"y")
			run(cl, "/p"+d, "x") // the byte as the last byte of the prefix (quotes end the attribute: rejected)
		}
		data("%" + d + "1")
		data("%4" + d)
	}
	// other kinds of values are handled like the plain string with the same contents
	for _, d := range []string{"a&b", "//evil.com/", "..", "x.js"} {
		for _, w := range []string{"safe:url:" + hx(d), "safe:tru:" + hx(d), "safe:html:" + hx(d), "stringer:" + hx(d), "ptr:str:" + hx(d), "err:" + hx(d)} {
			for _, cl := range []c14Class{urlCls, truCls} {
				one(cl, "/p/", w)
				one(cl, "/p?q=", w)
			}
		}
	}
	one(urlCls, "/p/", "nil")
	one(urlCls, "/p?q=", "int:42")

	// (5) structured random: prefixes and data assembled from the pieces
	pieces := append(append([]string{}, tails...), "http:", "https:", "//a.b", "/", "/a", "?", "?x=", "#", "#f", "a", "j", "java", ":", "@", "=", "&amp;")
	nr := 2500
	if thorough {
		nr = 60000
	}
	for k := 0; k < nr; k++ {
		p := randFrom(pieces, 5)
		if p == "" {
			p = "/"
		}
		d := randFrom(hostileData, 3)
		run(classes[rng.Intn(len(classes))], p, d)
	}

	// (6) malformed UTF-8 in the prefix and in the data
	for _, m := range malformed {
		for _, cl := range []c14Class{urlCls, truCls} {
			run(cl, "/p/"+m, "x")
			run(cl, m+"/", "x")
			run(cl, "/p/", m)
			run(cl, "/p?q=", "a"+m)
			run(cl, "/p/"+m, m)
		}
	}
	return "templates <E A=Q P{{.}} Q> through the real engine for every URL-typed (element, attribute, rel) class (a href, script src, img src, form action, link href rel=stylesheet / alternate, iframe src; more in the thorough tier), both quoting styles: " +
		"recorded witnesses; directed-search seeds as prefix / inside a prefix / as data; exhaustive small scope of prefixes of <= 3 (thorough 4) tokens over {/ ? # : a . % 4 & ; SP &quest;}; " +
		"long prefixes ending in an incomplete character reference / percent escape padded with 1..4096 zeros or letters; the grammar scheme x host x path x query x fragment x tail (tails: named references with and without ';', decimal, hex, partial references, complete and partial percent escapes, white space and controls raw and as references); " +
		"every tail after representative bases in every class; every hostile string and every single byte as data after path / query / fragment bases and as the last byte of the prefix; safe-type, Stringer, pointer and error values; " +
		"structured random prefixes and data; malformed UTF-8.  The decoded attribute value of the real output (tokenizer specification + html.UnescapeString model) is split by RFC 3986 and judged by the specification predicates; " +
		"url_proc judges NormalizeURL / QueryEscapeURL on every data string and on every string of <= 4 symbols over {% 4 f G g / & SP}; url_prefix, sanitizer_for, m_normalize, m_query_escape tie the model.  non-trivial = the template was accepted and executed", false, nil
}
