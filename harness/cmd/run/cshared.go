//go:build shared || allprops

package main

func init() { props["SHARED"] = runShared }

// runShared exercises only the correspondence streams of the shared models (not a property;
// used while developing, and by properties that build on these models).
func runShared(c *caseWriter) (string, bool, map[string]int) {
	all := append([]string{}, hostile...)
	all = append(all, malformed...)
	for b := 0; b < 256; b++ {
		all = append(all, string([]byte{byte(b)}), "a"+string([]byte{byte(b)})+"b")
	}
	for _, s := range hostile {
		for _, t := range hostile {
			all = append(all, s+t)
		}
	}
	for _, s := range all {
		for _, st := range []string{"m_is_safe_url", "m_query_escape", "m_normalize", "m_tru_prefix", "m_dotdot", "m_html_escaped", "m_coerce"} {
			emit(c, st, s)
		}
	}
	for _, s := range unescapeProbes() {
		emit(c, "m_html_unescape", s)
	}
	for _, s := range all {
		emit(c, "m_html_unescape", s)
	}
	return "shared model correspondence", false, nil
}
