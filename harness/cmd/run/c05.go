//go:build c05 || allprops

package main

import "fmt"

func init() { props["C05"] = runC05 }

func runC05(c *caseWriter) (string, bool, map[string]int) {
	quick := tier != "thorough"
	genPropHistories(c, "hist05", quick)
	genHistories(c, quick)
	return fmt.Sprintf("API histories over a pool of %d definition texts", len(defPool)) + " (helpers shared between callers in different contexts, context-opening helpers, failing/recursive/undefined/empty callees, break/continue, predefined escapers): every pool set with every order and repetition of executing two of its members, clone / late-parse scenarios, and random histories of 4-12 ops (New, t.New, Parse, Clone, Lookup, Execute, ExecuteTemplate, Templates/DefinedTemplates/Name, CSPCompatible) weighted towards doing something after an execution; every exec op is also run on a fresh set with the same definitions and on the projection of the history to its own name space; non-trivial = the history executes a template", false, nil
}
