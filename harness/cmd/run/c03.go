//go:build c03 || allprops

package main

import (
	"sort"
	"strings"

	"github.com/google/safehtml/template"
)

func init() {
	props["C03"] = runC03
	// c03_cell: <sanitizer> <value wire> -> result for the value, result for the plain string with the same contents
	reg("c03_cell", 2, func(c *caseWriter, in []string) {
		apply := func(v interface{}) (string, string) {
			out, err, found := template.VerifApplySanitizer(in[0], v)
			if !found || err != nil {
				return "err", ""
			}
			return "ok", out
		}
		v := valueFromWire(in[1])
		o1, s1 := apply(v)
		o2, s2 := apply(stringOf(v))
		c.Case("c03_cell", hx(in[0]), hx(in[1]), o1, hx(s1), o2, hx(s2))
	})
	// link_exec: <rel value as written> <value wire>:  <link rel="R" href="{{.}}">  executed; the driver
	// decides from the REVIEWED policy (never the engine's tables) whether this rel lets anything but a
	// TrustedResourceURL through: a URL-typed or untyped value emitted where only a TrustedResourceURL
	// is covered is a safe value (or a string) used outside the context of its type
	reg("link_exec", 2, func(c *caseWriter, in []string) {
		text := `<link rel="` + in[0] + `" href="{{.}}">`
		r := runTemplate(text, "", valueFromWire(in[1]), false)
		norm := " " + strings.Join(strings.Fields(strings.TrimSpace(strings.ToLower(in[0]))), " ") + " "
		c.Case("link_exec", hx(in[0]), hx(norm), hx(in[1]), r.outcome, hx(r.out))
	})
	// cond_exec: <element> <a1> <a2> <value wire>:  <E {{if .C}}a1{{else}}a2{{end}}="{{.X}}">  executed with C = true and
	// C = false; the driver judges the emitted value against the REVIEWED class of the attribute that was
	// actually written: a safe value of a type that class does not cover must not come out intact
	reg("cond_exec", 4, func(c *caseWriter, in []string) {
		text := "<" + in[0] + " {{if .C}}" + in[1] + "{{else}}" + in[2] + `{{end}}="{{.X}}">`
		fields := []string{hx(in[0]), hx(in[1]), hx(in[2]), hx(in[3])}
		for _, cond := range []bool{true, false} {
			r := runTemplate(text, "", map[string]interface{}{"C": cond, "X": valueFromWire(in[3])}, false)
			fields = append(fields, r.outcome, hx(r.out))
		}
		c.Case("cond_exec", fields...)
	})
	// attr_exec: <element> <attribute> <quote dq|sq> <static prefix inside the value> <value wire>
	reg("attr_exec", 5, func(c *caseWriter, in []string) {
		q := map[string]string{"dq": `"`, "sq": `'`}[in[2]]
		text := "<" + in[0] + " " + in[1] + "=" + q + in[3] + "{{.}}" + q + ">"
		r := runTemplate(text, "", valueFromWire(in[4]), false)
		c.Case("attr_exec", hx(in[0]), hx(in[1]), hx(in[2]), hx(in[3]), hx(in[4]), r.outcome, hx(r.out))
	})
}

// stringOf returns the contents of a probe value as a plain Go string.
func stringOf(v interface{}) string {
	out, _, _ := template.VerifApplySanitizer("_evalArgs", v)
	return out
}

func runC03(c *caseWriter) (string, bool, map[string]int) {
	quick := tier != "thorough"
	contents := []string{"../app.js", "%2e%2E/x", "a&quot;b&lt;c&bsol;d&Tab;e", "", "a", "<b>x</b>", "\"><b onmouseover=\"alert(1)\">", "'><i>", "' onx='1", "\" onx=\"1", "&amp;", "&", "&#", "&lt", "<", ">", "</script>", "-->",
		"javascript:alert(1)", "http://a/b?c=d&e=f", "/t.js", "color:red;", "a{b:c}", "alert(1)", "id1", "x.png 2x, y.png 1x", "_blank", "auto", "async", "lazy", "\x00", "\xff", "\n", "`", "=", " "}
	contents = append(contents, extraSeeds...)
	if !quick {
		contents = append(contents, hostile...)
	}
	for _, name := range sanitizerNames {
		for _, s := range contents {
			for _, w := range probeValues(s) {
				emit(c, "c03_cell", name, w)
				emit(c, "sanitizer_apply", name, w)
			}
		}
	}
	// every attribute-value class of the policy, through real templates
	p := template.VerifPolicyTables()
	type ea struct{ e, a string }
	byClass := map[int][]ea{}
	for a, sc := range p.GlobalAttr {
		byClass[sc] = append(byClass[sc], ea{"div", a})
	}
	for a, m := range p.ElementSpecific {
		for e, sc := range m {
			byClass[sc] = append(byClass[sc], ea{e, a})
		}
	}
	var classes []int
	for sc := range byClass {
		classes = append(classes, sc)
	}
	sort.Ints(classes)
	for _, sc := range classes {
		l := byClass[sc]
		sort.Slice(l, func(i, j int) bool { return l[i].e+l[i].a < l[j].e+l[j].a })
		n := 2
		if !quick {
			n = len(l)
		}
		for i := 0; i < n && i < len(l); i++ {
			for _, s := range contents {
				for _, w := range probeValues(s) {
					for _, q := range []string{"dq", "sq"} {
						emit(c, "attr_exec", l[i].e, l[i].a, q, "", w)
					}
				}
			}
		}
	}
	// with static prefixes (URL classes)
	for _, s := range contents {
		for _, w := range probeValues(s) {
			emit(c, "attr_exec", "a", "href", "dq", "/p?q=", w)
			emit(c, "attr_exec", "a", "href", "sq", "/p/", w)
			emit(c, "attr_exec", "img", "src", "dq", "/i/", w)
			emit(c, "attr_exec", "div", "title", "dq", "t: ", w)
			emit(c, "attr_exec", "a", "data-x", "dq", "", w)
			emit(c, "attr_exec", "script", "src", "dq", "/static/js/", w)
			emit(c, "attr_exec", "a", "href", "dq", "/redirect/", w)
			emit(c, "attr_exec", "form", "action", "dq", "", w)
		}
	}
	// attribute names chosen by a branch, both orders, with safe values whose contents a sanitizer would change
	condPairs := [][3]string{{"input", "src", "formaction"}, {"a", "href", "title"}, {"a", "href", "ping"}, {"img", "src", "alt"}, {"img", "src", "srcset"}, {"iframe", "src", "title"}, {"script", "src", "type"},
		{"link", "href", "title"}, {"form", "action", "title"}, {"button", "formaction", "value"}, {"video", "src", "poster"}, {"a", "href", "id"}, {"div", "title", "id"}, {"div", "style", "title"}, {"a", "href", "target"},
		{"img", "alt", "title"}, {"a", "title", "lang"}, {"form", "action", "action"}, {"q", "cite", "title"}, {"input", "formaction", "formaction"}, {"img", "src", "src"}, {"script", "src", "src"}}
	for _, cp := range condPairs {
		for _, s := range []string{"javascript:alert(1)", "https://a.example/w", "\"><b onmouseover=\"alert(1)\">", "x y"} {
			for _, w := range []string{"str:" + hx(s), "safe:url:" + hx(s), "safe:tru:" + hx(s), "ptr:safe:tru:" + hx(s), "safe:html:" + hx(s), "safe:identifier:" + hx(s), "safe:style:" + hx(s), "safe:script:" + hx(s)} {
				emit(c, "cond_exec", cp[0], cp[1], cp[2], w)
				emit(c, "cond_exec", cp[0], cp[2], cp[1], w)
			}
		}
	}
	// link rel: allow-listed values, style-sheet and module rels, values that merely CONTAIN an
	// allow-listed word, case and white-space variants
	for _, rel := range []string{"icon", "alternate", "next", "preload", "stylesheet", "alternate stylesheet", "stylesheet icon", "modulepreload", "apple-touch-icon", "mask-icon", "shortcut icon",
		"xicon", "iconx", "prefetchx", "x-next", "import", "manifest", "pingback", "ICON", "Alternate  StyleSheet", "icon\tstylesheet", "dns-prefetch", "preconnect", "prerenderx", "author-x", "", "x"} {
		for _, s := range []string{"https://a.example/w.css", "/t.js", "javascript:alert(1)", "x"} {
			for _, w := range []string{"str:" + hx(s), "safe:url:" + hx(s), "ptr:safe:url:" + hx(s), "safe:tru:" + hx(s), "safe:html:" + hx(s), "stringer:" + hx(s)} {
				emit(c, "link_exec", rel, w)
			}
		}
	}
	return "link_exec: 27 rel values (allow-listed, style sheet / module rels, values that contain an allow-listed word, case and white space) x 4 contents x {string, URL, *URL, TrustedResourceURL, HTML, Stringer} through <link rel=R href={{.}}>, judged against the reviewed policy; every function of the funcs map x 33 hostile contents x {string, *string, Stringer, error, 7 safe types at pointer depth 0..2}: result for the value and for the plain string with the same contents; two (element, attribute) pairs of every sanitization-context class (all pairs in the thorough tier) x both quoting styles x the same values through real templates, plus static URL prefixes; the executed output is re-tokenized by the HTML tokenizer specification; non-trivial = the value was accepted", false, nil
}
