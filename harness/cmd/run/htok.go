//go:build htok || allprops

package main

// Differential validation of the Coq specification of the WHATWG tokenizer (coq/spec/HtmlTok.v)
// against golang.org/x/net/html's Tokenizer.  This is spec validation, not a property of safehtml.
//
// Stream  htok <ctx> <input> <tokens>
//   ctx    = context element of NewTokenizerFragment ("" = data state)
//   tokens = x/net's token stream in the wire form below, canonicalised only as far as needed
//            to be comparable with the standard's tokens (see canon below).
//
// Wire form: tokens joined by ","; hex fields ("-" = empty):
//   S.<name>.<0|1>.<k>=<v>;<k>=<v>...   start tag, self-closing flag, attributes ("-" if none)
//   E.<name>     end tag            C.<data>   comment
//   D.<name>     doctype (name)     T.<data>   maximal run of text
// An empty stream is "-".
//
// Canonicalisation of x/net's output (everything else is compared as is):
//   * text, comment data, doctype data and attribute values are taken RAW (the bytes of the token's
//     data span, read through reflection, because Text()/TagAttr() decode character references;
//     the standard's tokenizer does that too, but the Coq spec deliberately reports raw bytes);
//     x/net's own post-processing is then re-applied: CR LF / CR -> LF, and NUL -> U+FFFD exactly
//     when x/net's convertNUL flag is set (or for comments), so x/net's decisions are kept;
//     when the data contains no '&' the result is cross-checked against Text();
//   * adjacent text tokens are merged (the standard has single-character tokens, the spec
//     reports maximal runs);
//   * x/net returns an empty comment for "</>" so that Raw() partitions the input; the standard
//     emits nothing: that pseudo token is dropped;
//   * doctype: x/net reports everything up to '>' as data; the name is its first
//     white-space-delimited word, ASCII-lower-cased.

import (
	"bytes"
	"fmt"
	"reflect"
	"strings"

	"golang.org/x/net/html"
)

func init() {
	props["HTOK"] = runHTOK
	reg("htok", 2, func(c *caseWriter, in []string) {
		outcome, out := guard(func() (string, string) { return "ok", xnetTokens(in[0], in[1]) })
		if outcome != "ok" {
			out = "panic"
		}
		c.Case("htok", hx(in[0]), hx(in[1]), out)
	})
}

func spanBytes(z *html.Tokenizer, field string, idx ...int) []byte {
	v := reflect.ValueOf(z).Elem()
	buf := v.FieldByName("buf").Bytes()
	f := v.FieldByName(field)
	for _, i := range idx {
		f = f.Index(i)
	}
	s, e := int(f.FieldByName("start").Int()), int(f.FieldByName("end").Int())
	if s < 0 || e > len(buf) || s > e {
		return nil
	}
	return append([]byte(nil), buf[s:e]...)
}

func boolField(z *html.Tokenizer, field string) bool {
	return reflect.ValueOf(z).Elem().FieldByName(field).Bool()
}

func nAttr(z *html.Tokenizer) int { return reflect.ValueOf(z).Elem().FieldByName("attr").Len() }

func convNL(b []byte) []byte {
	var o []byte
	for i := 0; i < len(b); i++ {
		if b[i] == '\r' {
			o = append(o, '\n')
			if i+1 < len(b) && b[i+1] == '\n' {
				i++
			}
		} else {
			o = append(o, b[i])
		}
	}
	return o
}

func convNUL(b []byte) []byte { return bytes.Replace(b, []byte{0}, []byte("\ufffd"), -1) }

func lowerASCII(b []byte) []byte {
	o := make([]byte, len(b))
	for i, c := range b {
		if 'A' <= c && c <= 'Z' {
			c += 'a' - 'A'
		}
		o[i] = c
	}
	return o
}

func hb(b []byte) string { return hx(string(b)) }

// xnetTokens runs x/net/html's tokenizer over in and serialises the canonicalised token stream.
func xnetTokens(ctx, in string) string {
	z := html.NewTokenizerFragment(strings.NewReader(in), ctx)
	z.AllowCDATA(false)
	var toks []string
	var text []byte
	haveText := false
	flush := func() {
		if haveText {
			toks = append(toks, "T."+hb(text))
			text, haveText = nil, false
		}
	}
	for {
		tt := z.Next()
		if tt == html.ErrorToken {
			break
		}
		switch tt {
		case html.TextToken:
			data := spanBytes(z, "data")
			s := convNL(data)
			if boolField(z, "convertNUL") {
				s = convNUL(s)
			}
			if !bytes.Contains(data, []byte("&")) {
				if got := z.Text(); !bytes.Equal(got, s) {
					panic(fmt.Sprintf("canonicalisation of text differs from Text(): %q vs %q", s, got))
				}
			}
			if len(s) > 0 {
				text = append(text, s...)
				haveText = true
			}
		case html.CommentToken:
			if string(z.Raw()) == "</>" {
				continue
			}
			data := spanBytes(z, "data")
			s := convNUL(convNL(data))
			if !bytes.Contains(data, []byte("&")) {
				if got := z.Text(); !bytes.Equal(got, s) {
					panic(fmt.Sprintf("canonicalisation of comment differs from Text(): %q vs %q", s, got))
				}
			}
			flush()
			toks = append(toks, "C."+hb(s))
		case html.DoctypeToken:
			data := convNL(spanBytes(z, "data"))
			name := data
			if i := bytes.IndexAny(data, " \t\n\f"); i >= 0 {
				name = data[:i]
			}
			flush()
			toks = append(toks, "D."+hb(lowerASCII(name)))
		case html.StartTagToken, html.SelfClosingTagToken:
			n := nAttr(z)
			var attrs []string
			for i := 0; i < n; i++ {
				k := lowerASCII(spanBytes(z, "attr", i, 0))
				v := convNL(spanBytes(z, "attr", i, 1))
				attrs = append(attrs, hb(k)+"="+hb(v))
			}
			name, _ := z.TagName()
			sc := "0"
			if tt == html.SelfClosingTagToken {
				sc = "1"
			}
			a := "-"
			if len(attrs) > 0 {
				a = strings.Join(attrs, ";")
			}
			flush()
			toks = append(toks, "S."+hb(name)+"."+sc+"."+a)
		case html.EndTagToken:
			name, _ := z.TagName()
			flush()
			toks = append(toks, "E."+hb(name))
		}
	}
	flush()
	if len(toks) == 0 {
		return "-"
	}
	return strings.Join(toks, ",")
}

var htokContexts = []string{"", "title", "textarea", "style", "script", "xmp", "iframe", "noembed", "noframes", "noscript", "plaintext"}

// fragments of the tag-soup generator
var htokFrags = []string{
	"<", "</", "<!", "<!--", "-->", "--!>", "--", "-", "!", "<?", "<![CDATA[", "]]>", ">", "/>", "/", "=", "\"", "'", "`",
	" ", "\t", "\n", "\f", "\r", "\r\n",
	"a", "b", "div", "DIV", "p", "br", "BR", "img", "input", "hr", "x-y", "a_b", "svg", "math", "select", "table",
	"title", "TITLE", "Title", "textarea", "TextArea", "style", "STYLE", "script", "SCRIPT", "Script", "scriptx", "xscript",
	"xmp", "iframe", "noembed", "noframes", "noscript", "plaintext", "PlainText",
	"<a>", "</a>", "<b ", "<p>", "<br/>", "<title>", "</title>", "</title", "</TITLE >", "<textarea>", "</textarea>", "<style>", "</style>",
	"<script>", "</script>", "</script", "</scriptx", "</script/", "</script ", "<script", "<SCRIPT>", "</SCRIPT>", "<xmp>", "</xmp>",
	"<iframe>", "</iframe>", "<noscript>", "</noscript>", "<plaintext>", "</plaintext>", "<noembed>", "<noframes>",
	" href=\"x\"", " b='y'", " c=z", " d", " href=x", " HREF=\"A&amp;B\"", " a=\"1\" a=\"2\"", " x=\"a'b\"", " y='a\"b'", " z=a\"b", " =q", " ==r", " a=", " a= >",
	" on\"click=x", " a'b=c", " <k=v", " k=<v", " k=v/", " k=\"v\"/", " k=\"v\"l=m", " k / l", " k/=l", " k =  v", " k\t=\nv", " k\r=\r\nv", " K=V",
	"<!DOCTYPE html>", "<!doctype", "<!DOCTYPE", " html", " PUBLIC \"a>b\"", "<!DOC", "<!d", "<!-", "<!-->", "<!--->", "<!---->", "<!--<!--", "<!--<!-->", "--!", "<!-- a -- b -->",
	"&amp;", "&lt;", "&#60;", "&", "&am", "&#x3c", "&quot;",
	"\x00", "\xc3\xa9", "\xff", "\xe2\x80\xa8", "x", "1", "hello world",
}

var htokScriptParts = []string{"<!--", "<script", "</script", "-->", "<script>", "</script>", "<!-", "--", "->", "<", "</", "x", " ", ">", "/", "-", "!", "<SCRIPT ", "</SCRIPT\t", "</scrip", "</scriptx", "<scriptx", "\n", "\x00", "'", "\""}

func permute(l []string, f func([]string)) {
	var rec func(int)
	rec = func(i int) {
		if i == len(l) {
			f(l)
			return
		}
		for j := i; j < len(l); j++ {
			l[i], l[j] = l[j], l[i]
			rec(i + 1)
			l[i], l[j] = l[j], l[i]
		}
	}
	rec(0)
}

func runHTOK(c *caseWriter) (string, bool, map[string]int) {
	tok := func(ctx, s string) { emit(c, "htok", ctx, s) }
	thorough := tier == "thorough"
	for _, s := range extraSeeds {
		for _, v := range seedVariants(s) {
			for _, ctx := range htokContexts {
				tok(ctx, v)
			}
		}
	}
	// hand-picked regression inputs
	for _, s := range []string{
		"<script><!--<script></script>--></script>x", "<title></title><b>", "<a href=\"x\" b='y' c=z d>", "<!-- -- > -->",
		"<script><!--</script>x", "<script><!--<script>--></script>x</script>y", "<script><!--<script </script>--></script>x",
		"<script><!--<scriptx></script>x", "<script><!-- <script> --> </script> <b>", "<script>a<!--b<script>c</script>d-->e</script>f",
		"<textarea><b></textarea><c>", "<title>a</titlex></title >b", "<xmp><b></xmp >", "<plaintext></plaintext><a>",
		"<a b=c/>", "<a b=/>", "<a/>", "<a / >", "<a b / c>", "</a b=c>", "</a/>", "</>", "</ x>", "<?x?>", "<!x>", "<1>", "< a>", "<a", "<a b", "<a b=", "<a b=\"", "<a b='c",
		"<!---", "<!----", "<!--a-", "<!--a--", "<!--a--!", "<!--a--!-", "<!--a--!>b", "<!--a--->b", "<!--<!--->", "<!--a<!--b-->c-->",
		"<!DOCTYPE html>", "<!doctype html PUBLIC \"x>y\">z", "<!DOCTYPE>", "<!DOCTYPE >", "<!DOCTYPEhtml>", "<!DOCTYPE  HTML  x>", "<!DOCTYP html>", "<![CDATA[a]]>b", "<![cdata[a]]>b",
		"a\r\nb\rc\n\rd", "<a\r\nb\r=\r\"c\r\nd\">", "<!--\r\n-->", "<title>\r\n</title>", "a\x00b<b\x00c d\x00e=\"f\x00g\"><!--\x00--><title>\x00</title><script>\x00</script>",
		"<a b=\"&quot;\" c='&amp' d=&lt;>&amp;&lt", "<SCRIPT/>x</script>y", "<title/>x</title>y", "<style>a</styl</style>b", "<iframe><!--</iframe>--><b>",
	} {
		for _, ctx := range []string{"", "title", "script"} {
			tok(ctx, s)
		}
	}
	// exhaustive small scope from the data state
	alpha := []string{"<", ">", "/", "!", "-", "=", "\"", "'", " ", "a", "s"}
	depth := 5
	product(alpha, depth, func(s string) { tok("", s) })
	// exhaustive small scope inside the raw text / RCDATA / script content models
	alpha2 := []string{"<", ">", "/", "!", "-", " ", "s", "t"}
	d2 := 4
	if thorough {
		d2 = 5
	}
	product(alpha2, d2, func(s string) {
		tok("script", s)
		tok("script", "<!--"+s)
		tok("script", "<!--<script>"+s)
		tok("title", s)
		tok("style", s)
	})
	product([]string{"<!--", "<script", "</script", "-->", ">", " ", "x"}, 5, func(s string) {
		tok("", "<script>"+s+"</script>x</script>y")
	})
	// <script> bodies with the four markers in every order, with separators
	seps := []string{"", " ", ">", "x", "\n"}
	permute([]string{"<!--", "<script", "</script", "-->"}, func(p []string) {
		for _, a := range seps {
			for _, b := range seps {
				for _, d := range seps {
					body := p[0] + a + p[1] + b + p[2] + d + p[3]
					tok("", "<script>"+body+"></script>x")
					tok("", "<script>"+body)
					tok("script", body+"</script >y<b>")
				}
			}
		}
	})
	// structured random: tag soup from fragments
	n := 12000
	if thorough {
		n = 300000
	}
	for i := 0; i < n; i++ {
		k := 1 + rng.Intn(10)
		var b strings.Builder
		for j := 0; j < k; j++ {
			b.WriteString(pick(htokFrags))
		}
		ctx := ""
		if rng.Intn(6) == 0 {
			ctx = pick(htokContexts)
		}
		tok(ctx, b.String())
	}
	// random script / raw text bodies
	for i := 0; i < n/2; i++ {
		body := randFrom(htokScriptParts, 12)
		switch rng.Intn(4) {
		case 0:
			tok("script", body)
		case 1:
			tok("", "<script>"+body+"</script>x<b>")
		case 2:
			el := pick([]string{"title", "textarea", "style", "xmp", "iframe", "noscript"})
			tok("", "<"+el+">"+strings.Replace(body, "script", el, -1)+"</"+el+">x<b>")
		default:
			tok("", "<script a=b>"+body)
		}
	}
	// well-formed-ish documents: start tag with random attributes, content, end tag
	names := []string{"a", "div", "P", "img", "br", "title", "textarea", "style", "script", "xmp", "iframe", "noscript", "noembed", "noframes", "plaintext", "select", "x-y"}
	quotes := []string{"\"", "'", ""}
	wss := []string{" ", "\t", "\n", "\f", "\r", "\r\n", "  "}
	for i := 0; i < n/2; i++ {
		var b strings.Builder
		for j := 0; j < 1+rng.Intn(4); j++ {
			el := pick(names)
			b.WriteString("<" + el)
			for k := 0; k < rng.Intn(4); k++ {
				q := pick(quotes)
				b.WriteString(pick(wss) + pick([]string{"href", "SRC", "on-x", "a", "a", "b:c", "data-é"}))
				switch rng.Intn(4) {
				case 0:
				case 1:
					b.WriteString(pick(wss) + "=" + pick(wss) + q + pick([]string{"v", "a&amp;b", "x y", "é", "/", "1>2", "a=b"}) + q)
				default:
					b.WriteString("=" + q + pick([]string{"v", "a&amp;b", "xy", "é", "p/q", "a=b", "&lt;", "`"}) + q)
				}
			}
			b.WriteString(pick([]string{">", " >", "/>", " />", "\n>"}))
			b.WriteString(pick([]string{"", "text", "a &amp; b", "<b>x</b>", "<!-- c -->", "1 < 2", "\x00", "é\r\n"}))
			if rng.Intn(3) > 0 {
				b.WriteString("</" + pick([]string{el, strings.ToUpper(el), el + " ", el + "x"}) + ">")
			}
		}
		tok("", b.String())
	}
	// long inputs
	for i := 0; i < 40; i++ {
		var b strings.Builder
		for b.Len() < 3000 {
			b.WriteString(pick(htokFrags))
		}
		tok("", b.String())
	}
	// every single byte in the main positions
	for x := 0; x < 256; x++ {
		s := string([]byte{byte(x)})
		for _, t := range []string{s, "<" + s, "</" + s, "<a" + s + ">", "<a " + s + ">", "<a b" + s + ">", "<a b=" + s + ">", "<a b=\"" + s + "\">", "<a b=c" + s + ">",
			"<a b=\"c\"" + s + ">", "<a/" + s + ">", "<!" + s + ">", "<!--" + s + "-->", "<!-- -" + s + "-->", "<!-- --" + s + "-->", "<!DOCTYPE" + s + "x>", "<!DOCTYPE x" + s + "y>",
			"<title>" + s + "</title>", "<title><" + s + "</title>", "<title></" + s + "</title>", "<title></title" + s + ">x", "<script>" + s + "</script>", "<script><!--" + s + "</script>",
			"<script><!--<script" + s + "</script>x</script>", "<script><!--<script></script" + s + "</script>x", "<plaintext>" + s} {
			tok("", t)
		}
	}
	return fmt.Sprintf("differential run of the Coq WHATWG tokenizer against golang.org/x/net/html v0.34.0: all strings of length <= %d over {< > / ! - = \" ' SP a s} from the data state; all strings of length <= %d over {< > / ! - SP s t} in script (plain, escaped, double escaped), title and style content; script bodies with <!-- <script </script --> in every order; %d random fragment soups, raw-text bodies and documents; every byte value in 26 syntactic positions; non-trivial = the token stream contains a tag, comment or doctype", depth, d2, n*2), true, nil
}
