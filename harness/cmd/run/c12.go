//go:build c12 || allprops

package main

import (
	"strings"

	"github.com/google/safehtml"
)

func init() { props["C12"] = runC12 }

func init() {
	// urlset: input s; output o = URLSetSanitized(s) and o2 = URLSetSanitized(o) (idempotence is
	// judged on the implementation itself).
	reg("urlset", 1, func(c *caseWriter, in []string) {
		var o2 string
		outcome, o := guard(func() (string, string) {
			o := safehtml.URLSetSanitized(in[0]).String()
			o2 = safehtml.URLSetSanitized(o).String()
			return "ok", o
		})
		c.Case("urlset", hx(in[0]), outcome, hx(o), hx(o2))
	})
	// srcmeta: isOptionalSrcMetadataWellFormed, i.e. the strconv.ParseFloat recogniser of the model
	reg("srcmeta", 1, func(c *caseWriter, in []string) {
		outcome, out := guard(func() (string, string) {
			if safehtml.VerifIsOptionalSrcMetadataWellFormed(in[0]) {
				return "ok", "1"
			}
			return "ok", "0"
		})
		c.Case("srcmeta", hx(in[0]), outcome, out)
	})
}

var c12URLs = []string{
	"a", "b.png", "/x/y", "http://e.com/i.png?a=1&b=2", "javascript:alert(1)", "JaVaScRiPt:alert(1)", "java\tscript:alert(1)",
	"data:image/png;base64,AAAA", "data:,", ",", ",a", "a,", ",a,", ",,", ",,a,,", "a,b", "%2c", "%2ca", "a%2c", "x:y", "a&b:c", "?q=1", "#f",
	"(", ")", "a(b)", "é", "\xff", ":", "a:b", ",javascript:x", "javascript:x,", ",javascript:x,", "%2cjavascript:x", "about:invalid#zGoSafez",
	"&", "a/b:c", "İavascript:x", "javaſcript:x", "K:x", "1x", "0x1p-2",
}

var c12Metas = []string{
	"", "1x", "2x", "100w", "50h", "1.5X", "2xx", "0x1p-2", "0x1p", "0x_1p0", "0x_1p0w", "1_0", "inf", "infx", "Infinity", "Infinityw", "iNfInItYx",
	"infinit", "infinitx", "infinityxx", "+nan", "nan", "nanx", "NaNq", "-infq", "+Infx", "1e999", "1e999x", "1e-999", "1e-999x", "1.", ".5", "+.e1",
	"+", "-", ".", "-1x", "+1x", "1e5", "1e", "1e+", "1e+x", "(", ")", "(1x)", "1(x", "1)x", "x", "Z", "0x1.8p1x", "0X1P1", "1__0", "_1", "1_", "0x",
	"0xf", "0xfp", "0xfp1", "0b1", "0o7", "1e1_0", "1e_1", "1_e1", "0x1p1_0", "0x1p_1", "0x1_p1", "0_x1p1", "1.2.3", "1..", "0x1.p1", "0x.1p1", "0x.p1",
	"0x1.1.p1", "0x1e1", "0x1e1p", "0x1e1p1", "1p1", "1f", "1F", "0xag", "00", "-0", "+0x0p0", "0e999", "0x0p99999", "0x0.0p-99999",
	// around the overflow boundary 2^1024 - 2^970
	"1.7976931348623157e308", "1.7976931348623158e308", "1.7976931348623159e308", "1.797693134862315807e308", "1.797693134862315808e308",
	"179769313486231580793728971405303415079934132710037826936173778980444968292764750946649017977587207096330286416692887910946555547851940402630657488671505820681908902000708383676273854845817711531764475730270069855571366959622842914819860834936475292719074168444365510704342711559699508093042880177904174497791",
	"179769313486231580793728971405303415079934132710037826936173778980444968292764750946649017977587207096330286416692887910946555547851940402630657488671505820681908902000708383676273854845817711531764475730270069855571366959622842914819860834936475292719074168444365510704342711559699508093042880177904174497792",
	"179769313486231580793728971405303415079934132710037826936173778980444968292764750946649017977587207096330286416692887910946555547851940402630657488671505820681908902000708383676273854845817711531764475730270069855571366959622842914819860834936475292719074168444365510704342711559699508093042880177904174497791.9999x",
	"0.000000000000000000000000000017976931348623158e337", "17976931348623158e292", "17976931348623157e292", "2e308", "1e309", "1e308", "1e310", "1e311",
	"0.1e310", "0.01e311", "0.00000000000000000000001e400", "1e10000", "1e99999", "1e100000", "1e1000000000000000000000", "0.1e-1000000000000000000000",
	"0x1.fffffffffffffp1023", "0x1.fffffffffffff7p1023", "0x1.fffffffffffff7fffp1023", "0x1.fffffffffffff8p1023", "0x1.fffffffffffff80001p1023",
	"0x1.fffffffffffff8000000000000001p1023", "0x1.fffffffffffff7ffffffffffffffffp1023", "0x1p1023", "0x1p1024", "0x0.8p1025", "0x0.00000001p1056", "0x10000000p996",
	"0x1p-1074", "0x1p-1075", "0x1p-99999", "0x1p99999", "0x1p100000", "0xffffffffffffffffp960", "0xfffffffffffff800p960", "0xfffffffffffffbffp960", "0xfffffffffffffc00p960",
	"0xfffffffffffffbff8p956", "0x7ffffffffffffcp969", "0x3ffffffffffffep970", "0x1fffffffffffffp971", "0x1ffffffffffffep971",
}

var c12WS = []string{" ", "\t", "\n", "\f", "\r", "  ", " \t\n"}
var c12Seps = []string{",", " ,", ", ", " , ", ",,", " ,, ", "", " ", "\t,\n", ",\f"}

func c12Set(c *caseWriter, s string)  { emit(c, "urlset", s) }
func c12Meta(c *caseWriter, m string) { emit(c, "srcmeta", m) }

func runC12(c *caseWriter) (string, bool, map[string]int) {
	depth := 5
	metaDepth := 4
	nRandom := 4000
	if tier == "thorough" {
		depth = 6
		metaDepth = 5
		nRandom = 120000
	}
	// (1) directed seeds: as a whole value, as URL, as metadata
	for _, s := range extraSeeds {
		for _, v := range seedVariants(s) {
			c12Set(c, v)
			c12Set(c, v+" 1x")
			c12Set(c, "a "+v)
			c12Set(c, "a 1x, "+v+" ,b")
			c12Meta(c, v)
			emit(c, "m_is_safe_url", v)
		}
	}
	// correspondence of the pieces
	for _, u := range c12URLs {
		emit(c, "m_is_safe_url", u)
	}
	for _, m := range c12Metas {
		c12Meta(c, m)
		for _, l := range []string{"x", "W", "e", "p", "f", "_", "0", ".", "+", "(", ")", ",", " ", "\x00", "\xff", "é", "`", "@", "{", "[", "z", "A", "Z"} {
			c12Meta(c, m+l)
			c12Meta(c, l+m)
		}
	}
	// (2a) every URL x every metadata in every candidate position
	for _, u := range c12URLs {
		for i, m := range c12Metas {
			cand := u
			if m != "" {
				cand = u + " " + m
			}
			c12Set(c, cand)
			if i%3 == 0 || tier == "thorough" {
				c12Set(c, cand+", a 1x")
				c12Set(c, "a 1x ,"+cand)
				c12Set(c, "a 1x, "+cand+" , b 2x")
			}
		}
		for _, w := range c12WS {
			c12Set(c, w+u+w+"1x"+w)
			c12Set(c, u+w+","+w+u)
			c12Set(c, w+u)
			c12Set(c, u+w)
		}
		for _, sp := range c12Seps {
			c12Set(c, u+sp+"b 2x")
			c12Set(c, "b 2x"+sp+u)
			c12Set(c, u+" 1x"+sp+u+" 2x"+sp+u)
			c12Set(c, u+sp)
			c12Set(c, sp+u)
		}
	}
	for _, m := range malformed {
		c12Set(c, m)
		c12Set(c, m+" 1x, a")
		c12Set(c, "a "+m)
		c12Meta(c, m)
		c12Meta(c, "1"+m)
	}
	// (2b) exhaustive small scope: all strings of <= depth symbols over a 9-symbol alphabet
	product([]string{"a", ",", " ", "(", ")", "1", "x", ":", "j"}, depth, func(v string) { c12Set(c, v) })
	// ... and for the number syntax
	product([]string{"1", "0", ".", "e", "-", "_", "x", "p", "f"}, metaDepth, func(v string) { c12Meta(c, v) })
	product([]string{"i", "n", "f", "a", "N", "+", "1"}, metaDepth, func(v string) { c12Meta(c, v) })
	// every single byte alone, inside a URL, inside and after a descriptor, as separator
	for b := 0; b < 256; b++ {
		s := string([]byte{byte(b)})
		c12Set(c, s)
		c12Set(c, "a"+s+"b 1x")
		c12Set(c, "a 1"+s+"x, b")
		c12Set(c, "a 1x"+s+"b")
		c12Set(c, s+"a,b"+s)
		c12Meta(c, s)
		c12Meta(c, "1"+s)
		c12Meta(c, s+"1")
		c12Meta(c, "1"+s+"1")
	}
	// (3) random: token soup and grammar-shaped numbers
	toks := append([]string{}, c12URLs...)
	toks = append(toks, c12Metas[:60]...)
	toks = append(toks, " ", " ", " ", ",", ",", " , ", "\t", "\n", "\f", "\r", "(", ")", "javascript:alert(1)")
	digs := []string{"0", "1", "9", "_", "a", "f", "F"}
	for i := 0; i < nRandom; i++ {
		c12Set(c, randFrom(toks, 7))
		// a random srcset of well-shaped candidates
		var sb strings.Builder
		for k, n := 0, 1+rng.Intn(4); k < n; k++ {
			if k > 0 {
				sb.WriteString(pick(c12Seps))
			}
			sb.WriteString(pick(c12WS[:2]) + pick(c12URLs))
			if rng.Intn(3) != 0 {
				sb.WriteString(pick(c12WS) + pick(c12Metas))
			}
		}
		c12Set(c, sb.String())
		// numbers
		num := pick([]string{"", "", "+", "-"}) + pick([]string{"", "", "0x", "0X"}) + randFrom(digs, 4) + pick([]string{"", ".", "."}) + randFrom(digs, 3) +
			pick([]string{"", "e", "E", "p", "P", "e+", "p-", "e-"}) + randFrom([]string{"0", "1", "3", "9", "_"}, 4) + pick([]string{"", "", "x", "w", "p", "e"})
		c12Meta(c, num)
	}
	// (4) malformed shapes of the srcset grammar itself
	for _, v := range []string{"", " ", ",", ",,", " , ", "a,", ",a", "a ,", "a , ,", "a 1x 2x", "a 1x 2x, b", "a (, b", "a (1x, b 2x), c", "a\x001x", "a 1x\x00, b",
		"a ) , b", "a 1x) , b", "a (1x) , javascript:alert(1)", "a,javascript:alert(1)", "a ,javascript:alert(1)", "a , javascript:alert(1) 1x", "javascript:alert(1),a",
		"javascript:alert(1) , a", "a javascript:alert(1)", "a 1x javascript:alert(1)", "a 1xjavascript:alert(1)", "a 1x,javascript:alert(1) 2x,b"} {
		c12Set(c, v)
	}
	return "urlset: every (URL, descriptor) pair from 50 URLs (plain, data:, javascript: in several spellings, commas at either end, %2c, parentheses, non-ASCII, bad UTF-8) x " +
			"137 numeric-looking descriptors (decimal, hex floats with/without p exponent, underscores, signs, inf/infinity/nan spellings, 1e999, 1e-999, the exact 2^1024-2^970 overflow boundary in decimal and hex) " +
			"as only candidate (every third descriptor also as first / last / middle candidate in the quick tier, all in thorough); the five white-space bytes and 10 separators around every URL; all strings of <= depth symbols over {a , SP ( ) 1 x : j}; " +
			"every single byte in five positions; random token soups and random well-shaped srcsets; malformed srcsets. srcmeta: the descriptors with 23 one-byte suffixes/prefixes, all strings of <= metaDepth " +
			"symbols over {1 0 . e - _ x p f} and {i n f a N + 1}, random grammar-shaped numbers. non-trivial = at least one candidate survived (urlset) / metadata accepted (srcmeta)",
		true, map[string]int{"depth": depth, "metaDepth": metaDepth}
}
