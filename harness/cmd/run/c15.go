//go:build c15 || allprops

package main

// C15 streams.
//
// Wire format of one StyleProperties value (stream "style_props", 17 inputs, each hex, "-" = empty):
//
//	input 0       BackgroundImageURLs   a list of strings packed into one string (see packList)
//	input 1       FontFamily            likewise
//	inputs 2..16  the 15 scalar fields in struct declaration order:
//	              Display BackgroundColor BackgroundPosition BackgroundRepeat BackgroundSize Color
//	              Height Width Left Right Top Bottom FontWeight Padding ZIndex
//	then          outcome ("ok" | "panic") and the resulting Style string.
//
// packList: every element e is written as  <decimal len(e)> ':' <the bytes of e>, the elements
// are concatenated; the empty list is the empty string.  A string that is not of this form
// (directed-search seeds) is read as a list with that one string as its only element.
//
// Stream "css_escape" (1 input): cssEscapeString through the hook VerifCSSEscapeString.

import (
	"strconv"
	"strings"

	"github.com/google/safehtml"
)

func init() { props["C15"] = runC15 }

func packList(l []string) string {
	var b strings.Builder
	for _, e := range l {
		b.WriteString(strconv.Itoa(len(e)))
		b.WriteByte(':')
		b.WriteString(e)
	}
	return b.String()
}

func unpackList(s string) []string {
	var out []string
	rest := s
	for rest != "" {
		i := strings.IndexByte(rest, ':')
		if i <= 0 || i > 9 {
			return []string{s}
		}
		n, err := strconv.Atoi(rest[:i])
		if err != nil || n < 0 || i+1+n > len(rest) || strconv.Itoa(n) != rest[:i] {
			return []string{s}
		}
		out = append(out, rest[i+1:i+1+n])
		rest = rest[i+1+n:]
	}
	return out
}

const nStyleInputs = 17

func stylePropsOf(in []string) safehtml.StyleProperties {
	return safehtml.StyleProperties{
		BackgroundImageURLs: unpackList(in[0]),
		FontFamily:          unpackList(in[1]),
		Display:             in[2],
		BackgroundColor:     in[3],
		BackgroundPosition:  in[4],
		BackgroundRepeat:    in[5],
		BackgroundSize:      in[6],
		Color:               in[7],
		Height:              in[8],
		Width:               in[9],
		Left:                in[10],
		Right:               in[11],
		Top:                 in[12],
		Bottom:              in[13],
		FontWeight:          in[14],
		Padding:             in[15],
		ZIndex:              in[16],
	}
}

func init() {
	reg("style_props", nStyleInputs, func(c *caseWriter, in []string) {
		outcome, out := guard(func() (string, string) {
			return "ok", safehtml.StyleFromProperties(stylePropsOf(in)).String()
		})
		f := make([]string, 0, nStyleInputs+2)
		for _, x := range in {
			f = append(f, hx(x))
		}
		f = append(f, outcome, hx(out))
		c.Case("style_props", f...)
	})
	reg("css_escape", 1, func(c *caseWriter, in []string) {
		c.Case("css_escape", hx(in[0]), hx(safehtml.VerifCSSEscapeString(in[0])))
	})
}

// styleCase emits a StyleProperties value given as field index -> raw input (list fields already packed).
func styleCase(c *caseWriter, fields map[int]string) {
	in := make([]string, nStyleInputs)
	for k, v := range fields {
		in[k] = v
	}
	emit(c, "style_props", in...)
}

// one value placed in field i (as a one-element list, and between two harmless elements, for list fields)
func styleInField(c *caseWriter, i int, v string) {
	if i <= 1 {
		styleCase(c, map[int]string{i: packList([]string{v})})
		styleCase(c, map[int]string{i: packList([]string{"a", v, "b"})})
	} else {
		styleCase(c, map[int]string{i: v})
	}
}

var cssMetas = []string{
	";", ":", "{", "}", "(", ")", "\"", "'", "\\", "/", "*", "@", "!", "<", ">", ",", " ", "\t",
	"\n", "\r", "\f", "\x00", "\x01", "\x1f", "\x7f", "\u0080", "\u009f", "é", " ", " ",
	"/*", "*/", "//", "\\22 ", "\\\n", "\\;", "\\3b ", "url(", "-->", "<!--", "a", "Z", "-", "1", "%", "#", ".", "+", "_",
	"\xff", "\xc2", "\xed\xa0\x80", "\U0001F600", "&", "=", "[", "]", "|", "~", "$", "^", "?", "`",
}

func runC15(c *caseWriter) (string, bool, map[string]int) {
	regular := 7 // Color
	// recorded finding D11 first
	styleCase(c, map[int]string{regular: "red,blue"})
	styleCase(c, map[int]string{regular: ","})
	// recorded finding D25: a space right after an escaped rune
	emit(c, "css_escape", "< x")
	styleInField(c, 0, "http://a/< x")
	styleInField(c, 1, "a\" b")
	// directed-search seeds
	for _, s := range extraSeeds {
		for _, v := range seedVariants(s) {
			for _, i := range []int{0, 1, 2, regular, 16} {
				styleInField(c, i, v)
			}
			styleInField(c, 1, "\""+v+"\"")
			emit(c, "css_escape", v)
			rxCase(c, "safeRegularPropertyValuePattern", v)
			rxCase(c, "safeEnumPropertyValuePattern", v)
			rxCase(c, "identifierPattern", v)
		}
	}
	// every metacharacter alone, wrapped, and in pairs, in every field and list element
	for i := 0; i < nStyleInputs; i++ {
		for _, m := range cssMetas {
			styleInField(c, i, m)
			styleInField(c, i, "a"+m+"b")
			if i <= 1 || i == 2 || i == regular || tier == "thorough" {
				for _, m2 := range cssMetas {
					styleInField(c, i, m+m2)
				}
			}
		}
		// pairs in the remaining fields: a rotating sample in the quick tier
		if !(i <= 1 || i == 2 || i == regular || tier == "thorough") {
			for k, m := range cssMetas {
				for k2, m2 := range cssMetas {
					if (k+k2+i)%7 == 0 {
						styleInField(c, i, m+m2)
					}
				}
			}
		}
	}
	// font names: the quote-stripping logic
	for _, m := range append([]string{"", "x", "21st Century", "serif", "sans-serif", "a", "ab", "-a", "a-"}, cssMetas...) {
		for _, v := range []string{"\"" + m + "\"", "\"" + m, m + "\"", "'" + m + "'", "\"\"" + m + "\"\""} {
			styleInField(c, 1, v)
		}
	}
	// URLs
	for _, u := range hostile {
		styleInField(c, 0, u)
		for _, m := range []string{"\"", "\\", ")", "\n", ";", "<", "\x00", " "} {
			styleInField(c, 0, "http://a/"+m+u)
		}
	}
	// cssEscapeString and the three patterns on every single byte / rune class, alone and embedded
	for b := 0; b < 256; b++ {
		s := string([]byte{byte(b)})
		for _, v := range []string{s, "a" + s + "b", s + s} {
			emit(c, "css_escape", v)
			rxCase(c, "safeRegularPropertyValuePattern", v)
			rxCase(c, "safeEnumPropertyValuePattern", v)
			rxCase(c, "identifierPattern", v)
			rxCase(c, "identifierPattern", "a"+v)
		}
		styleInField(c, 0, "/"+s)
		styleInField(c, 1, s)
		styleInField(c, 1, "x"+s+"y")
		styleInField(c, 2, s)
	}
	for _, r := range []rune{0, 1, 0x1f, 0x20, 0x7e, 0x7f, 0x80, 0x9f, 0xa0, 0xff, 0x2027, 0x2028, 0x2029, 0x202a, 0xd7ff, 0xe000, 0xfffd, 0xfffe, 0xffff, 0x10000, 0x10ffff} {
		emit(c, "css_escape", string(r))
		emit(c, "css_escape", "a"+string(r)+"0")
		styleInField(c, 1, "f"+string(r)+"0")
	}
	for _, m := range malformed {
		for _, v := range []string{m, "a" + m, m + "a", m + "\"", "\\" + m} {
			emit(c, "css_escape", v)
			for _, i := range []int{0, 1, 2, regular} {
				styleInField(c, i, v)
			}
			rxCase(c, "safeRegularPropertyValuePattern", v)
		}
	}
	// all 1-2 byte values in one regular field (quick: second byte from one representative per class)
	reps := []byte{0, 9, 10, ' ', '!', '"', '#', '%', '\'', '(', ')', '*', '+', ',', '-', '.', '/', '0', ':', ';', '<', '@', 'A', '\\', '_', 'a', '{', '}', 0x7f, 0x80, 0xbf, 0xc3, 0xff}
	for b := 0; b < 256; b++ {
		styleCase(c, map[int]string{regular: string([]byte{byte(b)})})
		if tier == "thorough" {
			for b2 := 0; b2 < 256; b2++ {
				styleCase(c, map[int]string{regular: string([]byte{byte(b), byte(b2)})})
			}
		} else {
			for _, b2 := range reps {
				styleCase(c, map[int]string{regular: string([]byte{byte(b), b2})})
				if b < 128 {
					styleCase(c, map[int]string{regular: string([]byte{b2, byte(b)})})
				}
			}
		}
	}
	// exhaustive small scope over the distinguishing alphabet of the regular pattern
	depth := 4
	if tier == "thorough" {
		depth = 5
	}
	product([]string{"a", "/", "*", ",", ";", " ", "\n", "-"}, depth, func(v string) {
		styleCase(c, map[int]string{regular: v})
		rxCase(c, "safeRegularPropertyValuePattern", v)
	})
	// random combinations of fields
	n := 3000
	if tier == "thorough" {
		n = 60000
	}
	good := []string{"red", "1px", "10%", "#fff", "bold", "left top", "no-repeat", "a/b", "1 * 2", "+1.5e3", "x!important", "block", "inline-block"}
	for k := 0; k < n; k++ {
		fields := map[int]string{}
		for i := 0; i < nStyleInputs; i++ {
			if rng.Intn(3) != 0 {
				continue
			}
			mk := func() string {
				switch rng.Intn(4) {
				case 0:
					return pick(good)
				case 1:
					return pick(good) + pick(cssMetas) + pick(good)
				case 2:
					return randFrom(cssMetas, 4)
				default:
					return pick(cssMetas) + pick(good)
				}
			}
			if i <= 1 {
				var l []string
				for j := rng.Intn(4); j > 0; j-- {
					if i == 0 && rng.Intn(2) == 0 {
						l = append(l, pick(hostile)+mk())
					} else {
						l = append(l, mk())
					}
				}
				fields[i] = packList(l)
			} else {
				fields[i] = mk()
			}
		}
		styleCase(c, fields)
	}
	return "StyleFromProperties: every CSS metacharacter (; : { } ( ) \" ' \\ / * @ ! < , newlines, controls, non-ASCII, /* */ //, escapes, url( ...) alone, wrapped a?b and in pairs in every field and list element (pairs: all in both lists, Display and Color, a 1/7 sample elsewhere in the quick tier); quote-stripping shapes of font names; hostile URLs; every byte alone in a URL, a font name and Display; malformed UTF-8; all 1-byte and (quick: byte x 33 class representatives, both orders; thorough: all 65536) 2-byte values in Color; all strings of <= depth symbols over {a / * , ; SP LF -} in Color; random combinations of fields; cssEscapeString on every byte and boundary runes; non-trivial = a non-empty Style was produced", false, map[string]int{"depth": depth}
}
