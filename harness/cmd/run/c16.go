//go:build c16 || allprops

package main

// C16 streams (every input and output in hex, "-" = empty):
//
//	css_rule       inputs: selector, style string.  The Style is rebuilt with VerifRawStyle from the
//	               string; the generator only passes strings that a checked constructor returned
//	               (StyleFromProperties, StyleFromConstant) -- plus a few ill-formed constants, which
//	               the oracle classifies "style_not_wellformed" and uses for correspondence only.
//	               Then: outcome ("ok" | "err") and the StyleSheet string.
//	strip_strings  input: selector; output cssStringPattern.ReplaceAllString(selector, "") (hook)
//	balanced       input: string; output "1"/"0" of hasBalancedBrackets (hook)

import (
	"strings"

	"github.com/google/safehtml"
)

func init() { props["C16"] = runC16 }

func init() {
	reg("css_rule", 2, func(c *caseWriter, in []string) {
		ss, err := safehtml.CSSRule(in[0], safehtml.VerifRawStyle(in[1]))
		if err != nil {
			c.Case("css_rule", hx(in[0]), hx(in[1]), "err", "-")
			return
		}
		c.Case("css_rule", hx(in[0]), hx(in[1]), "ok", hx(ss.String()))
	})
	reg("strip_strings", 1, func(c *caseWriter, in []string) {
		c.Case("strip_strings", hx(in[0]), hx(safehtml.VerifSelectorWithoutStrings(in[0])))
	})
	reg("balanced", 1, func(c *caseWriter, in []string) {
		b := "0"
		if safehtml.VerifHasBalancedBrackets(in[0]) {
			b = "1"
		}
		c.Case("balanced", hx(in[0]), b)
	})
}

// styles obtainable from the checked constructors
func c16Styles() (checked []string, illformed []string) {
	add := func(f func() string) {
		_, out := guard(func() (string, string) { return "ok", f() })
		checked = append(checked, out)
	}
	for _, p := range []safehtml.StyleProperties{
		{},
		{Color: "red"},
		{Color: "red,blue", Width: "1px"},
		{BackgroundImageURLs: []string{"http://a/b?c", "javascript:alert(1)", "x\"){}< y"}, FontFamily: []string{"serif", "\"21st Century\"", "a}b{;"}},
		{Display: "}{", Height: "a;b", Top: "/*", Padding: "1px 2px"},
	} {
		p := p
		add(func() string { return safehtml.StyleFromProperties(p).String() })
	}
	for _, s := range []string{"color:red;", "width: 1em;height: 1em;", "background:url('http://url');", "content:\"}\";", "a:b;/*c*/d:e;", "x:[a(b)];"} {
		s := s
		add(func() string { return safehtml.VerifStyleFromConstant(s).String() })
	}
	// accepted by StyleFromConstant's syntax checks although not a sequence of declarations
	for _, s := range []string{"a:b;};", "a:b;}x{c:d;", "a:(;", "a:\";", "a:b;/*;", "a:url(;"} {
		s := s
		_, out := guard(func() (string, string) { return "ok", safehtml.VerifStyleFromConstant(s).String() })
		illformed = append(illformed, out)
	}
	return
}

func c16Selector(c *caseWriter, sel string, styles []string) {
	for _, st := range styles {
		emit(c, "css_rule", sel, st)
	}
	emit(c, "strip_strings", sel)
	emit(c, "balanced", sel)
}

func runC16(c *caseWriter) (string, bool, map[string]int) {
	checked, illformed := c16Styles()
	one := []string{"color:red;"}
	few := []string{"color:red;", checked[3], ""}
	// recorded findings first
	c16Selector(c, "url(x\"){}input[value^=a]{background:url(//evil/a)}z{\"y)", checked)
	c16Selector(c, "-->b", checked)
	c16Selector(c, " --> b", one)
	for _, s := range extraSeeds {
		for _, v := range seedVariants(s) {
			c16Selector(c, v, few)
			c16Selector(c, "a["+v+"]", one)
			c16Selector(c, "\""+v+"\"", one)
			c16Selector(c, "a"+v+"{}b", one)
			rxCase(c, "invalidCSSSelectorRune", v)
			rxCase(c, "cssStringPattern", v)
		}
	}
	// every style with a handful of selectors
	sels := []string{"a", "a > b", ".c#d", "a[href^=\"x\"]", "a[x='}']", "a:not(.b)", "*", "a,b", "", " ", "a:nth-child(2n+1)", "a[b=\"\\\"\"]", "url(\"x\")", "a b[c~='d e']"}
	for _, st := range append(append([]string{}, checked...), illformed...) {
		for _, s := range sels {
			emit(c, "css_rule", s, st)
		}
	}
	// exhaustive small scope
	depth, depth2 := 4, 5
	if tier == "thorough" {
		depth, depth2 = 6, 8
	}
	product([]string{"a", "\"", "'", "(", ")", "[", "]", "\\", "\n", "{", "}"}, depth, func(v string) {
		emit(c, "css_rule", v, "color:red;")
		emit(c, "strip_strings", v)
		if len(v) <= depth-1 {
			emit(c, "balanced", v)
		}
	})
	// deep nesting: balanced and mismatched brackets buried under 30..1000 levels (a bracket stack kept in a
	// machine word, a counter per kind, a recursion limit show beyond their capacity)
	for _, k := range []int{30, 31, 32, 33, 62, 63, 64, 65, 66, 100, 127, 128, 129, 200, 1000} {
		op, cl := strings.Repeat("(", k), strings.Repeat(")", k)
		nop, ncl := strings.Repeat(":not(", k), strings.Repeat(")", k)
		for _, v := range []string{"a" + op + cl, "[b" + op + cl + ")", "[b" + nop + "a" + ncl + ")", "(b" + nop + "a" + ncl + "]", "[" + op + cl + "]", "(" + strings.Repeat("[", k) + strings.Repeat("]", k) + "]",
			"a" + strings.Repeat("([", k/2) + strings.Repeat("])", k/2), "a" + strings.Repeat("([", k/2) + strings.Repeat(")]", k/2), "[b" + op + "]" + cl, "a" + op + cl[:k-1] + "]"} {
			emit(c, "css_rule", v, "color:red;")
			emit(c, "balanced", v)
		}
	}
	// deeper over the characters that decide string / bracket structure
	product([]string{"a", "\"", "(", ")", "\\"}, depth2, func(v string) { c16Selector(c, v, one) })
	product([]string{"\"", "'", "\\", "\n", "\r", "\f", ")"}, depth, func(v string) { emit(c, "strip_strings", v); emit(c, "css_rule", "a("+v, "color:red;") })
	// every byte: alone, inside brackets, inside each kind of string, after a backslash in a string
	for b := 0; b < 256; b++ {
		s := string([]byte{byte(b)})
		for _, v := range []string{s, "a" + s + "b", "a[" + s + "]", "a[b=\"" + s + "\"]", "a[b='" + s + "']", "a[b=\"\\" + s + "\"]", "a(" + s + ")", "url(" + s + ")", s + s} {
			c16Selector(c, v, one)
		}
		rxCase(c, "invalidCSSSelectorRune", s)
		rxCase(c, "cssStringPattern", "\""+s+"\"")
		rxCase(c, "cssStringPattern", "'\\"+s+"'")
	}
	for _, r := range []rune{0x80, 0x9f, 0xa0, 0xff, 0x2028, 0xfffd, 0xffff, 0x10000, 0x10ffff} {
		for _, v := range []string{string(r), "a[b=\"" + string(r) + "\"]", "a[b=\"\\" + string(r) + "\"]"} {
			c16Selector(c, v, one)
		}
	}
	// runes outside ASCII (letters, digits, symbols) whose LOW BYTE is a bracket, a quote, a backslash or a brace, next
	// to real brackets: a scanner that narrows runes to bytes counts them as delimiters (they balance a real bracket
	// or hide one); with the unchanged engine every selector containing one of them is refused
	for _, r := range []rune{0x0428, 0x0128, 0x4e28, 0x0429, 0x0129, 0x4e29, 0x045b, 0x015b, 0x045d, 0x015d, 0x0122, 0x0127, 0x015c, 0x017b, 0x017d, 0x0222, 0x1e5b, 0x2028, 0x2229, 0xff08, 0xff09, 0xff3b, 0xff3d} {
		u := string(r)
		for _, v := range []string{"a" + u + ")", "a(" + u, "a[" + u, "a" + u + "]", u + ")b{", ":not(" + u, "a[b=" + u + "]{}x[", u + u, "a)" + u, "a]" + u, u + "(", u + "[", "a[b=\"" + u + "]", "." + u + "){}body{background:url(//e/)}x("} {
			c16Selector(c, v, one)
		}
		rxCase(c, "invalidCSSSelectorRune", u)
	}
	for _, m := range malformed {
		for _, v := range []string{m, "a" + m, "\"" + m + "\"", "\"\\" + m + "\"", "a[b='" + m + "']" + m} {
			c16Selector(c, v, one)
		}
	}
	// structured random: selectors built from fragments that mix quotes, brackets, url( and other
	// function-like tokens, escapes, LF/CR/FF inside and outside strings
	frags := []string{
		"a", "b", "div", ".c", "#i", "*", " ", " > ", " + ", " ~ ", ",", ":hover", "::before", ":not(", ":nth-child(2n+1)", ")", "(", "[", "]",
		"[a=b]", "[a^=b]", "[a$=b]", "[a|=b]", "[a*=b]", "[a=\"x\"]", "[a='x']", "[a=\"}\"]", "[a='{']", "[a=\";\"]", "[a=\"@\"]", "[a='/*']", "[a=\"*/\"]",
		"url(", "URL(", "Url(", "url(x", "url( ", "url(\"", "url('", "url(\"x\")", "foo(", "image-set(", "-->", "--", "->", "-", "$", "^", "|", "=",
		"\"", "'", "\"a\"", "'a'", "\"\\\"\"", "'\\''", "\"\\\\\"", "\"\\\n\"", "\"\n\"", "'\r'", "\"\f\"", "\"\\\r\\\n\"", "\"\r\n\"", "\"a'b\"", "'a\"b'", "\"(\"", "\")\"", "\"[\"", "']'",
		"\\", "\n", "\r", "\f", "\t", "{", "}", ";", "@", "/", "/*", "*/", "<", "!", "&", "é", "\x00", "\\22 ", "\\7b ", "u\\72l(",
	}
	n := 6000
	if tier == "thorough" {
		n = 200000
	}
	for k := 0; k < n; k++ {
		var b strings.Builder
		for j := 1 + rng.Intn(6); j > 0; j-- {
			b.WriteString(pick(frags))
		}
		st := "color:red;"
		if rng.Intn(4) == 0 {
			st = pick(checked)
		}
		emit(c, "css_rule", b.String(), st)
		if k%4 == 0 {
			emit(c, "strip_strings", b.String())
			emit(c, "balanced", b.String())
		}
	}
	return "CSSRule: the D12/D19 witnesses; all strings of <= depth symbols over {a \" ' ( ) [ ] \\ LF { }} and of <= depth2 over {a \" ( ) \\} as selector; strings of quotes/backslash/LF/CR/FF/) after an open function; every byte alone, in brackets, in each kind of string, after a backslash in a string, in url( ); malformed UTF-8; random concatenations of selector fragments mixing quotes, brackets, url( and other function-like tokens, escapes, LF/CR/FF inside and outside strings, comment markers, block/at/markup characters; styles: 5 StyleFromProperties outputs (with hostile values) and 6 StyleFromConstant constants, plus 6 ill-formed constants (correspondence only); hook streams strip_strings / balanced on the same selectors; non-trivial = CSSRule accepted", false, map[string]int{"depth": depth, "depth2": depth2}
}
