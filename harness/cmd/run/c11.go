//go:build c11 || allprops

package main

import (
	"html"
	"strings"

	"github.com/google/safehtml"
)

func init() { props["C11"] = runC11 }

func init() {
	reg("url_sanitized", 1, func(c *caseWriter, in []string) {
		outcome, out := guard(func() (string, string) { return "ok", safehtml.URLSanitized(in[0]).String() })
		c.Case("url_sanitized", hx(in[0]), outcome, hx(out), hx(html.UnescapeString(in[0])))
	})
}

// c11URL runs one string through URLSanitized (specification oracle + correspondence) and
// through isSafeURL (correspondence of the shared model).
func c11URL(c *caseWriter, s string) {
	emit(c, "url_sanitized", s)
	emit(c, "m_is_safe_url", s)
}

// caseFoldings returns n spellings of w; the first ones are fixed (lower, UPPER, Title, aLtErNaTiNg,
// AlTeRnAtInG), the others are drawn from rng. all=true returns every folding.
func caseFoldings(w string, n int, all bool) []string {
	letters := 0
	for i := 0; i < len(w); i++ {
		if w[i] >= 'a' && w[i] <= 'z' {
			letters++
		}
	}
	fold := func(mask int) string {
		b := []byte(w)
		k := 0
		for i := range b {
			if b[i] >= 'a' && b[i] <= 'z' {
				if mask&(1<<uint(k)) != 0 {
					b[i] -= 32
				}
				k++
			}
		}
		return string(b)
	}
	var out []string
	if all {
		for m := 0; m < 1<<uint(letters); m++ {
			out = append(out, fold(m))
		}
		return out
	}
	full := 1<<uint(letters) - 1
	masks := []int{0, full, 1, 0x2AA & full, 0x155 & full}
	for len(masks) < n {
		masks = append(masks, rng.Intn(full+1))
	}
	for _, m := range masks[:n] {
		out = append(out, fold(m))
	}
	return out
}

func runC11(c *caseWriter) (string, bool, map[string]int) {
	const js = "javascript:"
	nFold, nCtxFold, nRandom, depth := 3, 1, 3000, 3
	if tier == "thorough" {
		nFold, nCtxFold, nRandom, depth = 48, 6, 40000, 4
	}
	// what gets inserted besides every single byte: controls, white space, the runes whose lower-case
	// form is ASCII (U+0130, U+212A), U+017F, U+0131, other Unicode spaces, entity spellings
	selected := []string{
		"\u0130", "\u212a", "\u017f", "\u0131", "\u00a0", "\u2028", "\u2003", "\u200b", "\ufeff", "\u0085", "\u3000", "\ufffd", "\U0001d4bf",
		"&", "&amp;", "&colon;", "&colon", "&#58;", "&#58", "&#x3a;", "&#x3A", "&#0058;", "&Tab;", "&#9;", "&#x9;", "&NewLine;", "&#10;", "&#xA;", "&#13;",
		"&#1;", "&#32;", "&#x20;", "&nbsp;", "&sol;", "&quest;", "&num;", "&lt;", "&#106;", "&#x6a;", "&#74;", "&fjlig;", "&shy;", "&zwnj;", "&#x130;",
		"%3a", "%3A", "%0a", "%09", "\\", "\r\n", " \t", "/", "?", "#", ":", "::", "+", ".", "-", "0",
	}
	contexts := []string{"/", "?", "#", "&", "a/", "\t", " ", "\x00", "a&b/", "&#47;"}
	if tier != "thorough" {
		contexts = contexts[:6]
	}

	// (1) corpus / directed-search seeds first
	for _, s := range extraSeeds {
		for _, v := range seedVariants(s) {
			vs := []string{v, js + v, v + js + "alert(1)", "javascript" + v, "JavaScript" + v + "alert(1)"}
			if i := strings.IndexByte(v, ':'); i >= 0 {
				vs = append(vs, v[:i]+"javascript"+v[i:], v[:i]+"javascript"+v[i:]+"alert(1)", "javascript"+v[:i]+v[i:])
			}
			for j := 0; j <= len(v) && j < 8; j++ {
				vs = append(vs, v[:j]+js+v[j:], v[:j]+"javascript"+v[j:])
			}
			for _, x := range vs {
				c11URL(c, x)
				rxCase(c, "safeURLPattern", strings.ToLower(x))
			}
		}
	}
	for _, h := range hostile {
		c11URL(c, h)
		c11URL(c, h+js+"alert(1)")
		c11URL(c, js+h)
	}

	// (2) every case folding of "javascript:", bare and with a payload, in every context
	for i, f := range caseFoldings(js, 0, true) {
		c11URL(c, f)
		c11URL(c, " "+f+"x")
		c11URL(c, "/"+f)
		if i%8 == 0 || tier == "thorough" {
			// dotted capital I for i, long s for s, Kelvin sign appended to the scheme
			c11URL(c, strings.NewReplacer("i", "\u0130", "I", "\u0130").Replace(f)+"x")
			c11URL(c, strings.NewReplacer("s", "\u017f", "S", "\u017f").Replace(f)+"x")
			c11URL(c, f+"alert(1)")
		}
	}
	// (3) selected foldings with every byte and every selected string inserted at every position
	// (before, inside, after), in every context
	folds := caseFoldings(js, nFold, false)
	var inserts []string
	for b := 0; b < 256; b++ {
		inserts = append(inserts, string([]byte{byte(b)}))
	}
	inserts = append(inserts, selected...)
	inserts = append(inserts, malformed...)
	for _, f := range folds {
		for pos := 0; pos <= len(f); pos++ {
			for _, ins := range inserts {
				g := f[:pos] + ins + f[pos:]
				c11URL(c, g+"x")
			}
		}
	}
	for _, f := range folds[:nCtxFold] {
		for pos := 0; pos <= len(f); pos++ {
			for _, ins := range selected {
				g := f[:pos] + ins + f[pos:]
				for _, ctx := range contexts {
					c11URL(c, ctx+g+"x")
				}
				// two insertions
				c11URL(c, ins+g)
				c11URL(c, g+ins)
			}
		}
	}
	// (4) exhaustive small scope over one symbol per cell of the pattern's alphabet partition
	alphabet := []string{"a", "j", ":", "/", "?", "#", "&", "\t", " ", "+", "\u0130", "\xff"}
	product(alphabet, depth, func(v string) {
		c11URL(c, v)
		c11URL(c, "javascript"+v)
		c11URL(c, v+js)
		rxCase(c, "safeURLPattern", strings.ToLower(v))
	})
	// (5) random scheme-like and path-like strings
	schemeSyms := []string{"a", "Z", "h", "t", "p", "s", "0", "9", "+", ".", "-", "j", "J", "K", "\u212a", "\u0130", "I", "i"}
	pathSyms := []string{"a", "b", "/", "?", "#", "&", ":", "=", "%", ".", "..", "\u00e9", "\u0130", " ", "\t", "\n", "\x00", "&amp;", "&#58;", "\xff", "@", "[", "]"}
	schemes := []string{"http", "https", "mailto", "ftp", "data", "vbscript", "javascript", "Javascript", "JAVASCRIPT", "javascripT", "javascript1", "xjavascript", "java", "script", "about", "blob", "file", "tel", "livescript", "mocha", "view-source", "jar", "ws", "x-y.z+1"}
	for i := 0; i < nRandom; i++ {
		var s string
		switch rng.Intn(6) {
		case 0:
			s = randFrom(schemeSyms, 6) + ":" + randFrom(pathSyms, 8)
		case 1:
			s = pick(schemes) + ":" + randFrom(pathSyms, 8)
		case 2:
			s = randFrom(pathSyms, 10)
		case 3:
			s = pick([]string{"/", "//", "?", "#", "./", "../", ""}) + randFrom(pathSyms, 8) + pick(schemes) + ":" + randFrom(pathSyms, 3)
		case 4:
			s = randFrom(pathSyms, 2) + pick(schemes) + pick(selected) + ":" + randFrom(pathSyms, 4)
		default:
			f := pick(folds)
			p := rng.Intn(len(f) + 1)
			q := rng.Intn(len(f) + 1)
			if p > q {
				p, q = q, p
			}
			s = f[:p] + pick(inserts) + f[p:q] + pick(inserts) + f[q:] + randFrom(pathSyms, 3)
		}
		c11URL(c, s)
	}
	// (5b) long inputs: bytes a URL parser strips (leading C0 controls and spaces; TAB, LF, CR anywhere) in runs
	// around the powers of two before, inside and after the scheme (a check that looks at a bounded window of
	// the input, or that gives up on long input, shows here), and long harmless URLs
	maxK := 10
	if tier == "thorough" {
		maxK = 13
	}
	for k := 4; k <= maxK; k++ {
		for _, e := range []int{-11, -10, -1, 0, 1} {
			n := (1 << uint(k)) + e
			if n < 1 {
				continue
			}
			for _, pad := range []string{" ", "\t", "\n", "\r", "\x01", "\x1f", " \t"} {
				run := strings.Repeat(pad, n)[:n]
				c11URL(c, run+js+"alert(1)")
				if pad == "\t" || pad == "\n" || pad == "\r" {
					c11URL(c, "java"+run+"script:alert(1)")
					c11URL(c, "javascript"+run+":alert(1)")
					c11URL(c, "j"+run+"avascript:alert(1)")
				}
			}
			c11URL(c, strings.Repeat("a", n)+js+"alert(1)")
			c11URL(c, strings.Repeat("a", n)+"/"+js)
			c11URL(c, "http://h/"+strings.Repeat("a", n))
			c11URL(c, strings.Repeat("a", n)+":x")
		}
	}
	// (6) malformed UTF-8 around the scheme
	for _, m := range malformed {
		for _, v := range []string{m, m + js, js + m, "java" + m + "script:x", "javascript" + m + ":x", "http" + m + "://a", m + "/" + js, "a" + m + "?" + js} {
			c11URL(c, v)
		}
	}
	return "every case folding of 'javascript:' (bare, with payload, after SP and '/', with U+0130 for i and U+017F for s); " +
		"selected foldings (extra: foldings) with every byte, every malformed UTF-8 shape and every string of a selected set {U+0130 U+212A U+017F U+0131 Unicode spaces, " +
		"entity spellings of ':' TAB LF CR SP '/' '?' '#' and of letters, '&', percent-escapes, delimiters} inserted at every position before/inside/after, " +
		"and (extra: ctx_foldings foldings) in 6-10 prefix contexts and doubled; all strings of <= depth symbols over {a j : / ? # & TAB SP + U+0130 0xFF} alone, after 'javascript' and before 'javascript:'; " +
		"runs of 5..1025 (thorough: 8193) bytes a URL parser strips (leading controls / spaces, TAB LF CR inside the scheme) and long harmless URLs; random scheme-like and path-like strings; every string also goes through isSafeURL (model correspondence). " +
		"non-trivial = the input was kept (and judged by the WHATWG oracle raw, after the modelled and after Go's character-reference decoding) " +
		"or was replaced while the oracle sees a javascript scheme", true, map[string]int{"depth": depth, "foldings": nFold, "ctx_foldings": nCtxFold}
}
