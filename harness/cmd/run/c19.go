//go:build c19 || allprops

package main

// C19: the tie between the Go type-rule model (coq/spec/GoAssign.v, extracted) and the real
// compiler.  This runner reads the exported API of packages safehtml and safehtml/template from
// /repo's working tree (go/parser; files needing the verif tag and tests skipped), writes client
// programs as Go source into scratch modules under /verif/.work/C19/client/ (module c19client,
// replace github.com/google/safehtml => /repo), builds them with a handful of `go build ./...`
// invocations, maps compiler errors back to programs by package path and records, per program,
// a structured descriptor (which the OCaml driver turns into a model expression), whether it
// compiled, the class of the first compiler error and the program text.
//
// Streams (inputs first, then observations):
//   gate    pkg recv name paramIndex form lang | compile/nocompile errclass source
//   conv    upkg uname tpkg tname form         | compile/nocompile errclass source
//   lit     pkg type form                      | compile/nocompile errclass source
//   field   pkg type field form                | compile/nocompile errclass source
//   witness id payload                         | compile/nocompile errclass output source   (program is run)
//   api     pkg recv name                      | present/absent probe source
//   apitype pkg type                           | present/absent
//   apivar  pkg name                           | present/absent
//
// Form descriptors of the gate stream (the driver parses the same grammar):
//   form := lit | rune | int | var | call | sprint | bytes | field | index | aliasvar | tp
//         | named(form) | tconst(TYPE,form) | conv(TYPE,form) | cat(form,form)
//   TYPE := string | gate | my | ownsc
// rendered as Go: lit "x"; rune 'x'; int 65; var v (var v string); call f() (func f() string);
// sprint fmt.Sprint("x"); bytes bs (var bs []byte); field st.f; index ss[0]; aliasvar w
// (type al = string; var w al); named(e) a fresh `const cN = e`; tconst(T,e) `const cN T = e`;
// conv(T,e) T(e); cat(a,b) (a + b); gate is <pkg>.stringConstant; my is `type my string`; ownsc is
// the client's own `type stringConstant string`; tp passes the variable v through a generic
// function whose type parameter (constraint ~string) is inferred from the library function.

import (
	"context"
	"fmt"
	"go/ast"
	"go/build/constraint"
	"go/parser"
	"go/token"
	"io/ioutil"
	"os"
	"os/exec"
	"path/filepath"
	"sort"
	"strconv"
	"strings"
	"time"
)

func init() { props["C19"] = runC19 }

const c19Root = "/verif/.work/C19/client"

// ---------------------------------------------------------------- the API as the runner sees it

type c19Pkg struct{ id, dir, name, path string }

var c19Pkgs = []*c19Pkg{
	{"safehtml", repoRoot(), "safehtml", "github.com/google/safehtml"},
	{"template", repoRoot() + "/template", "template", "github.com/google/safehtml/template"},
}

type c19File struct {
	pkg      *c19Pkg
	imports  map[string]string
	declared map[string]bool
}

type c19Param struct {
	name string
	typ  ast.Expr
}

type c19Func struct {
	file    *c19File
	recv    string
	recvPtr bool
	name    string
	params  []c19Param
	results []ast.Expr
}

type c19Field struct {
	name     string
	typ      ast.Expr
	embedded bool
}

type c19Type struct {
	file     *c19File
	name     string
	isStruct bool
	fields   []c19Field
}

type c19Var struct {
	pkg  *c19Pkg
	name string
}

type c19API struct {
	fset  *token.FileSet
	funcs []*c19Func
	types []*c19Type
	vars  []c19Var
}

func c19FileActive(f *ast.File) bool {
	for _, cg := range f.Comments {
		if cg.Pos() >= f.Package {
			break
		}
		for _, c := range cg.List {
			if !constraint.IsGoBuild(c.Text) {
				continue
			}
			x, err := constraint.Parse(c.Text)
			if err != nil {
				return false
			}
			return x.Eval(func(tag string) bool {
				switch tag {
				case "linux", "amd64", "gc", "unix", "cgo":
					return true
				}
				return strings.HasPrefix(tag, "go1.")
			})
		}
	}
	return true
}

func c19Embedded(e ast.Expr) string {
	switch x := e.(type) {
	case *ast.Ident:
		return x.Name
	case *ast.StarExpr:
		return c19Embedded(x.X)
	case *ast.SelectorExpr:
		return x.Sel.Name
	}
	return ""
}

func c19LoadAPI() *c19API {
	api := &c19API{fset: token.NewFileSet()}
	for _, p := range c19Pkgs {
		names, _ := filepath.Glob(filepath.Join(p.dir, "*.go"))
		sort.Strings(names)
		var files []*ast.File
		for _, n := range names {
			if strings.HasSuffix(n, "_test.go") {
				continue
			}
			af, err := parser.ParseFile(api.fset, n, nil, parser.ParseComments)
			if err != nil {
				panic(fmt.Sprintf("C19: cannot parse %s: %v", n, err))
			}
			if !c19FileActive(af) || af.Name.Name != p.name {
				continue
			}
			files = append(files, af)
		}
		declared := map[string]bool{}
		for _, af := range files {
			for _, d := range af.Decls {
				if gd, ok := d.(*ast.GenDecl); ok && gd.Tok == token.TYPE {
					for _, sp := range gd.Specs {
						declared[sp.(*ast.TypeSpec).Name.Name] = true
					}
				}
			}
		}
		for _, af := range files {
			f := &c19File{pkg: p, imports: map[string]string{}, declared: declared}
			for _, im := range af.Imports {
				path := strings.Trim(im.Path.Value, "\"`")
				local := path[strings.LastIndex(path, "/")+1:]
				if im.Name != nil {
					local = im.Name.Name
				}
				f.imports[local] = path
			}
			for _, d := range af.Decls {
				switch x := d.(type) {
				case *ast.FuncDecl:
					if !x.Name.IsExported() {
						continue
					}
					fn := &c19Func{file: f, name: x.Name.Name}
					if x.Recv != nil && len(x.Recv.List) == 1 {
						t := x.Recv.List[0].Type
						if st, ok := t.(*ast.StarExpr); ok {
							fn.recvPtr = true
							t = st.X
						}
						if id, ok := t.(*ast.Ident); ok {
							fn.recv = id.Name
						} else {
							continue
						}
					}
					for _, fl := range x.Type.Params.List {
						if len(fl.Names) == 0 {
							fn.params = append(fn.params, c19Param{"", fl.Type})
						}
						for _, n := range fl.Names {
							fn.params = append(fn.params, c19Param{n.Name, fl.Type})
						}
					}
					if x.Type.Results != nil {
						for _, fl := range x.Type.Results.List {
							k := len(fl.Names)
							if k == 0 {
								k = 1
							}
							for i := 0; i < k; i++ {
								fn.results = append(fn.results, fl.Type)
							}
						}
					}
					api.funcs = append(api.funcs, fn)
				case *ast.GenDecl:
					switch x.Tok {
					case token.TYPE:
						for _, sp := range x.Specs {
							ts := sp.(*ast.TypeSpec)
							t := &c19Type{file: f, name: ts.Name.Name}
							if st, ok := ts.Type.(*ast.StructType); ok {
								t.isStruct = true
								for _, fl := range st.Fields.List {
									if len(fl.Names) == 0 {
										t.fields = append(t.fields, c19Field{c19Embedded(fl.Type), fl.Type, true})
									}
									for _, n := range fl.Names {
										t.fields = append(t.fields, c19Field{n.Name, fl.Type, false})
									}
								}
							}
							api.types = append(api.types, t)
						}
					case token.VAR, token.CONST:
						// exported constants are listed with the variables: a constant of a gate type hands its
						// value (and, by slicing, non-constant values of that type) to the client
						for _, sp := range x.Specs {
							for _, n := range sp.(*ast.ValueSpec).Names {
								if n.IsExported() {
									api.vars = append(api.vars, c19Var{p, n.Name})
								}
							}
						}
					}
				}
			}
		}
	}
	return api
}

func (a *c19API) findFunc(pkg, recv, name string) *c19Func {
	for _, f := range a.funcs {
		if f.file.pkg.id == pkg && f.recv == recv && f.name == name {
			return f
		}
	}
	return nil
}

func (a *c19API) findType(pkg, name string) *c19Type {
	for _, t := range a.types {
		if t.file.pkg.id == pkg && t.name == name {
			return t
		}
	}
	return nil
}

// ---------------------------------------------------------------- client programs

type c19Prog struct {
	imports  map[string]string // path -> alias
	declKeys map[string]bool
	decls    []string
	nconst   int
	isMain   bool
}

func newProg(isMain bool) *c19Prog {
	return &c19Prog{imports: map[string]string{}, declKeys: map[string]bool{}, isMain: isMain}
}

func c19Alias(path string) string {
	for _, p := range c19Pkgs {
		if p.path == path {
			return p.name
		}
	}
	r := strings.NewReplacer("/", "_", ".", "_", "-", "_")
	return "x" + r.Replace(path)
}

func (p *c19Prog) imp(path string) string {
	a := c19Alias(path)
	p.imports[path] = a
	return a
}

func (p *c19Prog) decl(key, text string) {
	if !p.declKeys[key] {
		p.declKeys[key] = true
		p.decls = append(p.decls, text)
	}
}

func (p *c19Prog) source() string {
	var b strings.Builder
	if p.isMain {
		b.WriteString("package main\n\n")
	} else {
		b.WriteString("package p\n\n")
	}
	var paths []string
	for k := range p.imports {
		paths = append(paths, k)
	}
	sort.Strings(paths)
	if len(paths) > 0 {
		b.WriteString("import (\n")
		for _, k := range paths {
			fmt.Fprintf(&b, "\t%s %q\n", p.imports[k], k)
		}
		b.WriteString(")\n\n")
	}
	for _, d := range p.decls {
		b.WriteString(d)
		b.WriteString("\n")
	}
	return b.String()
}

// typeText renders a type expression of the library as the client has to write it.
// ok is false when the client cannot write it (an unexported identifier, a func or non-empty
// interface literal).
func (p *c19Prog) typeText(f *c19File, e ast.Expr) (string, bool) {
	switch x := e.(type) {
	case *ast.Ident:
		if f.declared[x.Name] {
			if !x.IsExported() {
				return "", false
			}
			return p.imp(f.pkg.path) + "." + x.Name, true
		}
		return x.Name, true
	case *ast.SelectorExpr:
		if id, ok := x.X.(*ast.Ident); ok {
			if path, ok := f.imports[id.Name]; ok {
				return p.imp(path) + "." + x.Sel.Name, true
			}
		}
		return "", false
	case *ast.StarExpr:
		t, ok := p.typeText(f, x.X)
		return "*" + t, ok
	case *ast.ParenExpr:
		return p.typeText(f, x.X)
	case *ast.ArrayType:
		if x.Len != nil {
			return "", false
		}
		t, ok := p.typeText(f, x.Elt)
		return "[]" + t, ok
	case *ast.Ellipsis:
		t, ok := p.typeText(f, x.Elt)
		return "[]" + t, ok
	case *ast.MapType:
		k, ok1 := p.typeText(f, x.Key)
		v, ok2 := p.typeText(f, x.Value)
		return "map[" + k + "]" + v, ok1 && ok2
	case *ast.InterfaceType:
		if x.Methods == nil || len(x.Methods.List) == 0 {
			return "interface{}", true
		}
		return "", false
	}
	return "", false
}

func c19IsGate(f *c19File, e ast.Expr) bool {
	id, ok := e.(*ast.Ident)
	return ok && id.Name == "stringConstant" && f.declared[id.Name]
}

func c19Elem(e ast.Expr) (ast.Expr, bool) {
	if el, ok := e.(*ast.Ellipsis); ok {
		return el.Elt, true
	}
	return e, false
}

func c19IsStringLike(f *c19File, e ast.Expr) bool {
	el, _ := c19Elem(e)
	if c19IsGate(f, el) {
		return true
	}
	id, ok := el.(*ast.Ident)
	return ok && id.Name == "string" && !f.declared["string"]
}

type c19Form struct {
	op   string
	typ  string
	args []*c19Form
}

func c19ParseForm(s string) *c19Form {
	f, rest := c19ParseFormAt(s)
	if strings.TrimSpace(rest) != "" {
		panic("C19: bad form " + s)
	}
	return f
}

func c19ParseFormAt(s string) (*c19Form, string) {
	i := 0
	for i < len(s) && (s[i] >= 'a' && s[i] <= 'z') {
		i++
	}
	f := &c19Form{op: s[:i]}
	s = s[i:]
	if !strings.HasPrefix(s, "(") {
		return f, s
	}
	s = s[1:]
	if f.op == "tconst" || f.op == "conv" {
		j := strings.Index(s, ",")
		f.typ = s[:j]
		s = s[j+1:]
	}
	for {
		a, rest := c19ParseFormAt(s)
		f.args = append(f.args, a)
		s = rest
		if strings.HasPrefix(s, ",") {
			s = s[1:]
			continue
		}
		if strings.HasPrefix(s, ")") {
			return f, s[1:]
		}
		panic("C19: bad form tail " + s)
	}
}

func (p *c19Prog) formType(t string, gateAlias string) string {
	switch t {
	case "string":
		return "string"
	case "gate":
		return gateAlias + ".stringConstant"
	case "my":
		p.decl("my", "type my string")
		return "my"
	case "ownsc":
		p.decl("ownsc", "type stringConstant string")
		return "stringConstant"
	}
	panic("C19: bad form type " + t)
}

func (p *c19Prog) renderForm(f *c19Form, gateAlias string) string {
	switch f.op {
	case "lit":
		return `"x"`
	case "rune":
		return `'x'`
	case "int":
		return `65`
	case "var":
		p.decl("v", "var v string")
		return "v"
	case "call":
		p.decl("f", `func f() string { return "x" }`)
		return "f()"
	case "sprint":
		return p.imp("fmt") + `.Sprint("x")`
	case "bytes":
		p.decl("bs", "var bs []byte")
		return "bs"
	case "field":
		p.decl("st", "var st struct{ f string }")
		return "st.f"
	case "index":
		p.decl("ss", "var ss []string")
		return "ss[0]"
	case "aliasvar":
		p.decl("al", "type al = string")
		p.decl("w", "var w al")
		return "w"
	case "named":
		init := p.renderForm(f.args[0], gateAlias)
		p.nconst++
		n := fmt.Sprintf("c%d", p.nconst)
		p.decls = append(p.decls, fmt.Sprintf("const %s = %s", n, init))
		return n
	case "tconst":
		init := p.renderForm(f.args[0], gateAlias)
		t := p.formType(f.typ, gateAlias)
		p.nconst++
		n := fmt.Sprintf("c%d", p.nconst)
		p.decls = append(p.decls, fmt.Sprintf("const %s %s = %s", n, t, init))
		return n
	case "conv":
		arg := p.renderForm(f.args[0], gateAlias)
		return p.formType(f.typ, gateAlias) + "(" + arg + ")"
	case "cat":
		return "(" + p.renderForm(f.args[0], gateAlias) + " + " + p.renderForm(f.args[1], gateAlias) + ")"
	}
	panic("C19: bad form op " + f.op)
}

// callee renders the function or method value as the client writes it.
func (p *c19Prog) callee(fn *c19Func) (string, bool) {
	alias := p.imp(fn.file.pkg.path)
	if fn.recv == "" {
		return alias + "." + fn.name, true
	}
	if !ast.IsExported(fn.recv) {
		return "", false
	}
	star := ""
	if fn.recvPtr {
		star = "*"
	}
	return fmt.Sprintf("(*new(%s%s.%s)).%s", star, alias, fn.recv, fn.name), true
}

// gateProgram builds the program that passes form at parameter idx of fn.
func c19GateProgram(fn *c19Func, idx int, form string) (string, bool) {
	p := newProg(false)
	callee, ok := p.callee(fn)
	if !ok {
		return "", false
	}
	gateAlias := p.imp(fn.file.pkg.path)
	if form == "tp" {
		return c19GenericProgram(p, fn, idx, callee)
	}
	var args []string
	for j, prm := range fn.params {
		el, variadic := c19Elem(prm.typ)
		if j == idx {
			args = append(args, p.renderForm(c19ParseForm(form), gateAlias))
			continue
		}
		if variadic {
			continue
		}
		if c19IsGate(fn.file, el) {
			args = append(args, `"x"`)
			continue
		}
		t, ok := p.typeText(fn.file, prm.typ)
		if !ok {
			return "", false
		}
		args = append(args, "*new("+t+")")
	}
	p.decls = append(p.decls, fmt.Sprintf("func _() { %s(%s) }", callee, strings.Join(args, ", ")))
	return p.source(), true
}

// gateVarSources: the exported constants and variables, and the exported fields ("T.f") of the exported struct types
func (a *c19API) gateVarSources() []c19Var {
	out := append([]c19Var{}, a.vars...)
	for _, t := range a.types {
		if !t.isStruct || !ast.IsExported(t.name) {
			continue
		}
		for _, f := range t.fields {
			if !f.embedded && ast.IsExported(f.name) {
				out = append(out, c19Var{t.file.pkg, t.name + "." + f.name})
			}
		}
	}
	return out
}

// c19GateVarProgram: a VARIABLE initialised from an exported identifier of the library (constant or variable),
// sliced at a run-time index, is passed to the gate parameter idx of fn.  Slicing a variable is never a constant
// expression, so the program must not compile, whatever the identifier's type.
func c19GateVarProgram(v c19Var, fn *c19Func, idx int) (string, bool) {
	p := newProg(false)
	callee, ok := p.callee(fn)
	if !ok {
		return "", false
	}
	valias := p.imp(v.pkg.path)
	osAlias := p.imp("os")
	if k := strings.Index(v.name, "."); k > 0 {
		// an exported field of an exported struct type: T.f
		p.decl("gs", fmt.Sprintf("var gs %s.%s", valias, v.name[:k]))
		p.decl("gv", "var gv = gs"+v.name[k:])
	} else {
		p.decl("gv", fmt.Sprintf("var gv = %s.%s", valias, v.name))
	}
	p.decl("gk", "var gk = len("+osAlias+".Args)")
	var args []string
	for j, prm := range fn.params {
		el, variadic := c19Elem(prm.typ)
		if j == idx {
			args = append(args, "gv[gk:]")
			continue
		}
		if variadic {
			continue
		}
		if c19IsGate(fn.file, el) {
			args = append(args, `"x"`)
			continue
		}
		t, ok := p.typeText(fn.file, prm.typ)
		if !ok {
			return "", false
		}
		args = append(args, "*new("+t+")")
	}
	p.decls = append(p.decls, fmt.Sprintf("func _() { %s(%s) }", callee, strings.Join(args, ", ")))
	return p.source(), true
}

func c19GenericProgram(p *c19Prog, fn *c19Func, idx int, callee string) (string, bool) {
	var tparams, ptypes, args []string
	for j, prm := range fn.params {
		el, variadic := c19Elem(prm.typ)
		dots := ""
		if variadic {
			dots = "..."
		}
		if j == idx || c19IsGate(fn.file, el) {
			tp := fmt.Sprintf("T%d", j)
			tparams = append(tparams, tp+" ~string")
			ptypes = append(ptypes, dots+tp)
			if j == idx {
				args = append(args, tp+"(s)")
			} else if !variadic {
				args = append(args, tp+`("x")`)
			}
			continue
		}
		t, ok := p.typeText(fn.file, el)
		if !ok {
			return "", false
		}
		ptypes = append(ptypes, dots+t)
		if !variadic {
			args = append(args, "*new("+t+")")
		}
	}
	var results []string
	for _, r := range fn.results {
		t, ok := p.typeText(fn.file, r)
		if !ok {
			return "", false
		}
		results = append(results, t)
	}
	p.decl("v", "var v string")
	p.decls = append(p.decls, fmt.Sprintf("func call[%s](fn func(%s) (%s), s string) { fn(%s) }",
		strings.Join(tparams, ", "), strings.Join(ptypes, ", "), strings.Join(results, ", "), strings.Join(args, ", ")))
	p.decls = append(p.decls, fmt.Sprintf("func _() { call(%s, v) }", callee))
	return p.source(), true
}

func (a *c19API) convProgram(upkg, uname, tpkg, tname, form string) (string, bool) {
	p := newProg(false)
	tt := a.findType(tpkg, tname)
	if tt == nil || !ast.IsExported(tname) {
		return "", false
	}
	T := p.imp(tt.file.pkg.path) + "." + tname
	var uval, U string
	switch {
	case upkg == "" && uname == "string":
		p.decl("v", "var v string")
		U, uval = "string", "v"
	case upkg == "client":
		// a client struct type with the same field names and types as T
		if !tt.isStruct {
			return "", false
		}
		var fs []string
		for _, f := range tt.fields {
			t, ok := p.typeText(tt.file, f.typ)
			if !ok {
				return "", false
			}
			if f.embedded {
				fs = append(fs, t)
			} else {
				fs = append(fs, f.name+" "+t)
			}
		}
		p.decl("look", "type lookalike struct{ "+strings.Join(fs, "; ")+" }")
		U, uval = "lookalike", "*new(lookalike)"
	default:
		ut := a.findType(upkg, uname)
		if ut == nil || !ast.IsExported(uname) {
			return "", false
		}
		U = p.imp(ut.file.pkg.path) + "." + uname
		uval = "*new(" + U + ")"
	}
	switch form {
	case "value":
		p.decls = append(p.decls, fmt.Sprintf("var _ = %s(%s)", T, uval))
	case "pointer":
		p.decls = append(p.decls, fmt.Sprintf("var _ = (*%s)(new(%s))", T, U))
	default:
		return "", false
	}
	return p.source(), true
}

func (a *c19API) litProgram(pkg, tname, form string) (string, bool) {
	p := newProg(false)
	t := a.findType(pkg, tname)
	if t == nil || !t.isStruct || !ast.IsExported(tname) {
		return "", false
	}
	T := p.imp(t.file.pkg.path) + "." + tname
	switch {
	case form == "zero":
		p.decls = append(p.decls, fmt.Sprintf("var _ = %s{}", T))
	case form == "positional":
		var vals []string
		for _, f := range t.fields {
			ft, ok := p.typeText(t.file, f.typ)
			if !ok {
				return "", false
			}
			vals = append(vals, "*new("+ft+")")
		}
		if len(vals) == 0 {
			return "", false
		}
		p.decls = append(p.decls, fmt.Sprintf("var _ = %s{%s}", T, strings.Join(vals, ", ")))
	case strings.HasPrefix(form, "keyed:"):
		name := form[len("keyed:"):]
		for _, f := range t.fields {
			if f.name == name {
				ft, ok := p.typeText(t.file, f.typ)
				if !ok {
					// the value does not matter for the rule under test; nil or a zero literal would
					// need the type, so use an untyped nil-able placeholder only for pointer-ish types
					return "", false
				}
				p.decls = append(p.decls, fmt.Sprintf("var _ = %s{%s: *new(%s)}", T, name, ft))
				return p.source(), true
			}
		}
		return "", false
	default:
		return "", false
	}
	return p.source(), true
}

func (a *c19API) fieldProgram(pkg, tname, field, form string) (string, bool) {
	p := newProg(false)
	t := a.findType(pkg, tname)
	if t == nil || !ast.IsExported(tname) {
		return "", false
	}
	T := p.imp(t.file.pkg.path) + "." + tname
	switch form {
	case "direct_read":
		p.decls = append(p.decls, fmt.Sprintf("var x %s\nvar _ = x.%s", T, field))
	case "direct_write":
		p.decls = append(p.decls, fmt.Sprintf("var x %s\nfunc _() { x.%s = x.%s }", T, field, field))
	case "embed_read":
		p.decls = append(p.decls, fmt.Sprintf("type my struct{ %s }\nvar m my\nvar _ = m.%s", T, field))
	case "embed_write":
		p.decls = append(p.decls, fmt.Sprintf("type my struct{ %s }\nvar m my\nfunc _() { m.%s = m.%s }", T, field, field))
	default:
		return "", false
	}
	return p.source(), true
}

// ---------------------------------------------------------------- witness programs (run)

const c19WitnessHeader = `package main

import (
	"fmt"
	"os"
%s)

func payload() string { return os.Args[1] }

`

var c19Witnesses = map[string][2]string{
	// id -> (extra imports, body)
	"d15_script": {"\t\"github.com/google/safehtml\"\n", `func main() {
	s := safehtml.Script(safehtml.URLSanitized(payload()))
	fmt.Print(s.String())
}
`},
	"d15_html_ptr": {"\t\"github.com/google/safehtml\"\n", `func main() {
	u := safehtml.URLSanitized(payload())
	h := (*safehtml.HTML)(&u)
	fmt.Print(h.String())
}
`},
	"d20_tru": {"\t\"github.com/google/safehtml\"\n", `type reqVal string

func (r reqVal) String() string   { return string(r) }
func (r reqVal) Set(string) error { return nil }

func main() {
	t := safehtml.TrustedResourceURLFromFlag(reqVal(payload()))
	fmt.Print(t.String())
}
`},
	"d20_trufmt": {"\t\"github.com/google/safehtml\"\n", `type reqVal string

func (r reqVal) String() string   { return string(r) }
func (r reqVal) Set(string) error { return nil }

func main() {
	t, err := safehtml.TrustedResourceURLFormatFromFlag(reqVal(payload()), nil)
	if err != nil {
		fmt.Print("error: ", err)
		return
	}
	fmt.Print(t.String())
}
`},
	"d20_ts": {"\t\"github.com/google/safehtml/template\"\n", `type reqVal string

func (r reqVal) String() string   { return string(r) }
func (r reqVal) Set(string) error { return nil }

func main() {
	t := template.TrustedSourceFromFlag(reqVal(payload()))
	fmt.Print(t.String())
}
`},
	"d21_parsefs": {"\t\"io/ioutil\"\n\t\"path/filepath\"\n\n\t\"github.com/google/safehtml/template\"\n", `func main() {
	os.MkdirAll("/verif/.work/C19", 0o755)
	dir, _ := ioutil.TempDir("/verif/.work/C19", "d21")
	defer os.RemoveAll(dir)
	ioutil.WriteFile(filepath.Join(dir, "a.tmpl"), []byte("A<b>{{.}}</b>"), 0o644)
	ioutil.WriteFile(filepath.Join(dir, "b.tmpl"), []byte("B<i>{{.}}</i>"), 0o644)
	tfs := template.TrustedFSFromTrustedSource(template.TrustedSourceFromConstant("/verif/.work/C19"))
	// the run-time string decides which file becomes the template
	pattern := filepath.Base(dir) + "/" + payload()
	t, err := template.ParseFS(tfs, pattern)
	if err != nil {
		fmt.Print("error: ", err)
		return
	}
	h, err := t.ExecuteToHTML("1")
	fmt.Print(payload(), "=>", h.String(), err)
}
`},
	"d30_tree": {"\t\"text/template/parse\"\n\n\t\"github.com/google/safehtml/template\"\n", `func main() {
	t := template.Must(template.New("x").Parse("constant"))
	t.Tree.Root.Nodes[0].(*parse.TextNode).Text = []byte(payload())
	h, err := t.ExecuteToHTML(nil)
	if err != nil {
		fmt.Print("error: ", err)
		return
	}
	fmt.Print(h.String())
}
`},
	"d31_script": {"\t\"github.com/google/safehtml\"\n", `func call[T ~string, R any](f func(T) R, s string) R { return f(T(s)) }

func main() {
	s := call(safehtml.ScriptFromConstant, payload())
	fmt.Print(s.String())
}
`},
	"d31_parse": {"\t\"github.com/google/safehtml/template\"\n", `func call[T ~string, R any](f func(T) (R, error), s string) (R, error) { return f(T(s)) }

func main() {
	t, err := call(template.New("x").Parse, payload())
	if err != nil {
		fmt.Print("error: ", err)
		return
	}
	h, err := t.ExecuteToHTML(nil)
	fmt.Print(h.String())
}
`},
}

func c19WitnessSource(id string) (string, bool) {
	w, ok := c19Witnesses[id]
	if !ok {
		return "", false
	}
	return fmt.Sprintf(c19WitnessHeader, w[0]) + w[1], true
}

// probeSource: call an exported function all of whose parameters are strings with the payload
func (a *c19API) probeSource(fn *c19Func) (string, bool) {
	if fn.recv != "" || len(fn.params) == 0 || len(fn.results) == 0 {
		return "", false
	}
	for _, prm := range fn.params {
		id, ok := prm.typ.(*ast.Ident)
		if !ok || id.Name != "string" {
			return "", false
		}
	}
	// first result must have a String method: a struct type of the two packages
	p := newProg(true)
	rt, ok := p.typeText(fn.file, fn.results[0])
	if !ok || strings.HasPrefix(rt, "*") || strings.HasPrefix(rt, "[") || !strings.Contains(rt, ".") {
		return "", false
	}
	var args []string
	for range fn.params {
		args = append(args, "os.Args[1]")
	}
	blanks := strings.Repeat(", _", len(fn.results)-1)
	p.imports["fmt"] = "fmt"
	p.imports["os"] = "os"
	callee, _ := p.callee(fn)
	p.decls = append(p.decls, fmt.Sprintf("func main() {\n\tr%s := %s(%s)\n\tfmt.Print(fmt.Sprint(r))\n}", blanks, callee, strings.Join(args, ", ")))
	return p.source(), true
}

// ---------------------------------------------------------------- building

type c19Job struct {
	stream string
	in     []string // raw inputs
	src    string
	lang   string // go1.21 | go1.16
	run    bool
	arg    string // payload for run programs
	// results
	dir      string
	compiled bool
	errMsg   string
	output   string
}

func c19Env() []string {
	env := os.Environ()
	return append(env, "GOFLAGS=-mod=mod", "GOPROXY=off", "GOSUMDB=off", "GOTOOLCHAIN=local")
}

func c19ErrClass(msg string) string {
	switch {
	case msg == "":
		return ""
	case strings.Contains(msg, "requires go1.18"):
		return "needs-go1.18"
	case strings.Contains(msg, "not exported by package"):
		return "not-exported"
	case strings.Contains(msg, "cannot use"):
		return "cannot-use"
	case strings.Contains(msg, "cannot convert"):
		return "cannot-convert"
	case strings.Contains(msg, "unexported field"):
		return "unexported-field"
	case strings.Contains(msg, "is not constant"):
		return "not-constant"
	case strings.Contains(msg, "mismatched types"), strings.Contains(msg, "invalid operation"):
		return "invalid-operation"
	case strings.Contains(msg, "undefined"):
		return "undefined"
	case strings.Contains(msg, "does not satisfy"), strings.Contains(msg, "cannot infer"):
		return "type-inference"
	case strings.Contains(msg, "too few values"), strings.Contains(msg, "too many values"), strings.Contains(msg, "mixture of field"):
		return "literal-shape"
	}
	return "other:" + msg
}

func c19WriteModule(dir, lang string) {
	os.MkdirAll(dir, 0o755)
	gomod := fmt.Sprintf("module c19client\n\ngo %s\n\nrequire github.com/google/safehtml v0.0.0\n\nreplace github.com/google/safehtml => %s\n", strings.TrimPrefix(lang, "go"), repoRoot())
	if err := ioutil.WriteFile(filepath.Join(dir, "go.mod"), []byte(gomod), 0o644); err != nil {
		panic(err)
	}
	sum, err := ioutil.ReadFile(repoRoot() + "/go.sum")
	if err != nil {
		panic(err)
	}
	ioutil.WriteFile(filepath.Join(dir, "go.sum"), sum, 0o644)
}

var c19Builds int

// c19Build writes every job into the scratch module of its language level, builds each module
// with one go build invocation (plus one for the programs that are run) and fills in the results.
func c19Build(jobs []*c19Job, tag string) {
	byLang := map[string][]*c19Job{}
	for _, j := range jobs {
		byLang[j.lang] = append(byLang[j.lang], j)
	}
	var langs []string
	for l := range byLang {
		langs = append(langs, l)
	}
	sort.Strings(langs)
	for _, lang := range langs {
		mod := filepath.Join(c19Root, tag+"-"+strings.ReplaceAll(lang, ".", ""))
		os.RemoveAll(mod)
		c19WriteModule(mod, lang)
		index := map[string]*c19Job{}
		var runDirs []string
		for i, j := range byLang[lang] {
			file := "p.go"
			if j.run {
				j.dir = fmt.Sprintf("w%05d", i)
				file = "main.go"
				runDirs = append(runDirs, "./"+j.dir)
			} else {
				j.dir = fmt.Sprintf("g%05d", i)
			}
			os.MkdirAll(filepath.Join(mod, j.dir), 0o755)
			if err := ioutil.WriteFile(filepath.Join(mod, j.dir, file), []byte(j.src), 0o644); err != nil {
				panic(err)
			}
			index[j.dir] = j
			j.compiled = true
		}
		ctx, cancel := context.WithTimeout(context.Background(), 20*time.Minute)
		// -o /dev/null: type-check and compile every package, write nothing (without it a module
		// holding a single main package would get its binary written over the package directory)
		cmd := exec.CommandContext(ctx, "go", "build", "-o", os.DevNull, "./...")
		cmd.Dir = mod
		cmd.Env = c19Env()
		out, _ := cmd.CombinedOutput()
		cancel()
		c19Builds++
		cur := ""
		for _, line := range strings.Split(string(out), "\n") {
			line = strings.TrimRight(line, "\r")
			if line == "" || strings.Contains(line, "conda") {
				continue
			}
			if strings.HasPrefix(line, "# ") {
				pkg := strings.Fields(line)[1]
				if !strings.HasPrefix(pkg, "c19client/") {
					fmt.Fprintf(os.Stderr, "C19: the library itself does not build:\n%s\n", out)
					os.Exit(3)
				}
				cur = strings.TrimPrefix(pkg, "c19client/")
				if j := index[cur]; j != nil {
					j.compiled = false
				}
				continue
			}
			if j := index[cur]; j != nil && cur != "" && strings.HasPrefix(line, cur+"/") {
				if j.errMsg == "" {
					k := strings.Index(line, ": ")
					j.errMsg = line[k+2:]
				}
				continue
			}
			if strings.HasPrefix(line, "go: ") || strings.HasPrefix(line, "go build") {
				fmt.Fprintf(os.Stderr, "C19: go build failed:\n%s\n", out)
				os.Exit(3)
			}
		}
		if len(runDirs) > 0 {
			bin := filepath.Join(mod, "bin")
			os.MkdirAll(bin, 0o755)
			args := append([]string{"build", "-o", bin + "/"}, runDirs...)
			bcmd := exec.Command("go", args...)
			bcmd.Dir = mod
			bcmd.Env = c19Env()
			bcmd.CombinedOutput()
			c19Builds++
			for _, j := range byLang[lang] {
				if !j.run || !j.compiled {
					continue
				}
				exe := filepath.Join(bin, j.dir)
				if _, err := os.Stat(exe); err != nil {
					j.compiled = false
					j.errMsg = "binary missing"
					continue
				}
				ctx, cancel := context.WithTimeout(context.Background(), 20*time.Second)
				rc := exec.CommandContext(ctx, exe, j.arg)
				rc.Dir = mod
				o, err := rc.Output()
				cancel()
				j.output = string(o)
				if err != nil {
					j.output += "<exit: " + err.Error() + ">"
				}
			}
		}
	}
}

func c19Obs(j *c19Job) string {
	if j.compiled {
		return "compile"
	}
	return "nocompile"
}

func c19Record(c *caseWriter, j *c19Job) {
	var f []string
	for _, x := range j.in {
		f = append(f, hx(x))
	}
	switch j.stream {
	case "witness":
		f = append(f, c19Obs(j), hx(c19ErrClass(j.errMsg)), hx(j.output), hx(j.src))
	case "api":
		probe := "noprobe"
		if j.src != "" {
			switch {
			case !j.compiled:
				probe = "probe-nocompile"
			case strings.Contains(j.output, j.arg):
				probe = "probe-verbatim"
			default:
				probe = "probe-changed"
			}
		}
		f = append(f, "present", probe, hx(j.output), hx(j.src))
	default:
		f = append(f, c19Obs(j), hx(c19ErrClass(j.errMsg)), hx(j.src))
	}
	c.Case(j.stream, f...)
}

// ---------------------------------------------------------------- job construction from raw inputs

const c19Payload = "<script>alert(1)</script>"

func (a *c19API) job(stream string, in []string) *c19Job {
	j := &c19Job{stream: stream, in: in, lang: "go1.21"}
	ok := false
	switch stream {
	case "gate":
		fn := a.findFunc(in[0], in[1], in[2])
		idx, err := strconv.Atoi(in[3])
		if fn != nil && err == nil && idx >= 0 && idx < len(fn.params) {
			j.src, ok = c19GateProgram(fn, idx, in[4])
		}
		j.lang = in[5]
	case "gatevar":
		fn := a.findFunc(in[2], in[3], in[4])
		idx, err := strconv.Atoi(in[5])
		if fn != nil && err == nil && idx >= 0 && idx < len(fn.params) {
			for _, v := range a.gateVarSources() {
				if v.pkg.id == in[0] && v.name == in[1] {
					j.src, ok = c19GateVarProgram(v, fn, idx)
				}
			}
		}
	case "conv":
		j.src, ok = a.convProgram(in[0], in[1], in[2], in[3], in[4])
	case "lit":
		j.src, ok = a.litProgram(in[0], in[1], in[2])
	case "field":
		j.src, ok = a.fieldProgram(in[0], in[1], in[2], in[3])
	case "witness":
		j.src, ok = c19WitnessSource(in[0])
		j.run, j.arg = true, in[1]
	}
	if !ok {
		return nil
	}
	return j
}

func init() {
	one := func(stream string, nin int) {
		reg(stream, nin, func(c *caseWriter, in []string) {
			api := c19LoadAPI()
			j := api.job(stream, in)
			if j == nil {
				c.Case(stream, append(c19Hex(in), "nocompile", hx("not-generated"), "-")...)
				return
			}
			c19Build([]*c19Job{j}, "replay")
			c19Record(c, j)
		})
	}
	one("gate", 6)
	one("gatevar", 6)
	one("conv", 5)
	one("lit", 3)
	one("field", 4)
	one("witness", 2)
	reg("api", 3, func(c *caseWriter, in []string) {
		api := c19LoadAPI()
		fn := api.findFunc(in[0], in[1], in[2])
		if fn == nil {
			c.Case("api", append(c19Hex(in), "absent", "noprobe", "-", "-")...)
			return
		}
		j := &c19Job{stream: "api", in: in, lang: "go1.21"}
		if src, ok := api.probeSource(fn); ok {
			j.src, j.run, j.arg = src, true, c19Payload
			c19Build([]*c19Job{j}, "replay")
		}
		c19Record(c, j)
	})
	reg("apitype", 2, func(c *caseWriter, in []string) {
		obs := "absent"
		if c19LoadAPI().findType(in[0], in[1]) != nil {
			obs = "present"
		}
		c.Case("apitype", append(c19Hex(in), obs)...)
	})
	reg("apivar", 2, func(c *caseWriter, in []string) {
		obs := "absent"
		for _, v := range c19LoadAPI().vars {
			if v.pkg.id == in[0] && v.name == in[1] {
				obs = "present"
			}
		}
		c.Case("apivar", append(c19Hex(in), obs)...)
	})
}

func c19Hex(in []string) []string {
	var f []string
	for _, x := range in {
		f = append(f, hx(x))
	}
	return f
}

// ---------------------------------------------------------------- the generator

var c19Atoms = []string{"lit", "rune", "int", "var", "call", "sprint", "bytes", "field", "index", "aliasvar"}

var c19QuickForms = []string{
	// untyped string constants: must compile
	"lit", "cat(lit,lit)", "named(lit)", "cat(named(cat(named(lit),lit)),lit)", "named(named(lit))",
	// the ways of producing a non-constant or typed argument named by the property
	"var", "tconst(string,lit)", "conv(string,var)", "conv(string,lit)", "call", "cat(lit,var)", "cat(var,lit)",
	// naming the gate type, look-alikes
	"conv(gate,var)", "conv(gate,lit)", "tconst(gate,lit)", "conv(my,var)", "conv(my,lit)", "tconst(my,lit)", "conv(ownsc,var)", "tconst(ownsc,lit)",
	// other constants and values
	"rune", "int", "bytes", "conv(string,bytes)", "conv(string,int)", "conv(string,rune)", "sprint", "aliasvar", "field", "index",
	"named(conv(string,lit))", "named(tconst(string,lit))", "cat(named(lit),var)", "cat(tconst(string,lit),lit)", "cat(lit,rune)",
	"cat(call,call)", "conv(string,cat(lit,var))", "conv(my,conv(string,var))",
	// type parameter inference
	"tp",
}

func c19ThoroughForms() []string {
	seen := map[string]bool{}
	var out []string
	add := func(f string) {
		if !seen[f] {
			seen[f] = true
			out = append(out, f)
		}
	}
	for _, f := range c19QuickForms {
		add(f)
	}
	var base []string
	for _, f := range c19QuickForms {
		if f != "tp" {
			base = append(base, f)
		}
	}
	for _, b := range base {
		add("named(" + b + ")")
		for _, t := range []string{"string", "my", "gate", "ownsc"} {
			add("tconst(" + t + "," + b + ")")
			add("conv(" + t + "," + b + ")")
		}
	}
	for _, x := range c19Atoms {
		for _, y := range c19Atoms {
			add("cat(" + x + "," + y + ")")
		}
		add("cat(named(lit)," + x + ")")
		add("cat(" + x + ",tconst(string,lit))")
		add("cat(conv(my,var)," + x + ")")
	}
	return out
}

func runC19(c *caseWriter) (string, bool, map[string]int) {
	os.RemoveAll(c19Root)
	os.MkdirAll(c19Root, 0o755)
	api := c19LoadAPI()
	var jobs []*c19Job
	skipped := 0
	add := func(stream string, in ...string) {
		j := api.job(stream, in)
		if j == nil {
			skipped++
			return
		}
		jobs = append(jobs, j)
	}

	forms := c19QuickForms
	if tier == "thorough" {
		forms = c19ThoroughForms()
	}
	// directed seeds: extra forms handed over by the check driver
	for _, s := range extraSeeds {
		if strings.Trim(s, "abcdefghijklmnopqrstuvwxyz(),") == "" && s != "" {
			func() {
				defer func() { recover() }()
				c19ParseForm(s)
				forms = append(forms, s)
			}()
		}
	}

	// 1. every exported function and method x every string-like parameter x every form
	nparams := 0
	for _, fn := range api.funcs {
		for i, prm := range fn.params {
			if !c19IsStringLike(fn.file, prm.typ) {
				continue
			}
			nparams++
			for _, f := range forms {
				add("gate", fn.file.pkg.id, fn.recv, fn.name, strconv.Itoa(i), f, "go1.21")
				if f == "tp" {
					add("gate", fn.file.pkg.id, fn.recv, fn.name, strconv.Itoa(i), f, "go1.16")
				}
			}
		}
	}

	// 1b. every exported constant and variable of the two packages, loaded into a variable and sliced at a run-time
	// index, handed to gate parameters (the first three gated functions of each package)
	{
		perPkg := map[string]int{}
		for _, fn := range api.funcs {
			for i, prm := range fn.params {
				el, _ := c19Elem(prm.typ)
				if !c19IsGate(fn.file, el) || perPkg[fn.file.pkg.id] >= 3 {
					continue
				}
				perPkg[fn.file.pkg.id]++
				for _, v := range api.gateVarSources() {
					add("gatevar", v.pkg.id, v.name, fn.file.pkg.id, fn.recv, fn.name, strconv.Itoa(i))
				}
				break
			}
		}
	}

	// 2. conversions: every ordered pair of exported struct types of the two packages, by value and
	// by pointer; from string; from a client look-alike struct
	var structs []*c19Type
	for _, t := range api.types {
		if t.isStruct && ast.IsExported(t.name) {
			structs = append(structs, t)
		}
	}
	for _, T := range structs {
		for _, U := range structs {
			if T == U {
				continue
			}
			add("conv", U.file.pkg.id, U.name, T.file.pkg.id, T.name, "value")
			add("conv", U.file.pkg.id, U.name, T.file.pkg.id, T.name, "pointer")
		}
		add("conv", "", "string", T.file.pkg.id, T.name, "value")
		add("conv", "client", "lookalike", T.file.pkg.id, T.name, "value")
		add("conv", "client", "lookalike", T.file.pkg.id, T.name, "pointer")
	}

	// 3. composite literals and field access, directly and through embedding
	for _, T := range structs {
		add("lit", T.file.pkg.id, T.name, "zero")
		add("lit", T.file.pkg.id, T.name, "positional")
		for _, f := range T.fields {
			add("lit", T.file.pkg.id, T.name, "keyed:"+f.name)
			for _, form := range []string{"direct_read", "direct_write", "embed_read", "embed_write"} {
				add("field", T.file.pkg.id, T.name, f.name, form)
			}
		}
	}

	// 4. the witness programs of the recorded findings (run; the output shows the content)
	var wids []string
	for id := range c19Witnesses {
		wids = append(wids, id)
	}
	sort.Strings(wids)
	for _, id := range wids {
		payload := c19Payload
		switch id {
		case "d21_parsefs":
			payload = "b.tmpl"
		case "d20_trufmt":
			payload = "//evil.example/x.js"
		case "d15_script", "d15_html_ptr":
			payload = "alert(1)//<script>"
		}
		add("witness", id, payload)
	}

	// 5. the API itself: one case per exported function/method, type, variable (closed world)
	for _, fn := range api.funcs {
		j := &c19Job{stream: "api", in: []string{fn.file.pkg.id, fn.recv, fn.name}, lang: "go1.21"}
		if src, ok := api.probeSource(fn); ok {
			j.src, j.run, j.arg = src, true, c19Payload
		}
		jobs = append(jobs, j)
	}

	var build []*c19Job
	for _, j := range jobs {
		if j.src != "" {
			build = append(build, j)
		}
	}
	c19Build(build, "main")
	for _, j := range jobs {
		c19Record(c, j)
	}
	for _, t := range api.types {
		emit(c, "apitype", t.file.pkg.id, t.name)
	}
	for _, v := range api.vars {
		emit(c, "apivar", v.pkg.id, v.name)
	}

	rule := fmt.Sprintf("client programs generated from the exported API of /repo (go/parser): every exported function and method x every string or stringConstant parameter (%d) x %d argument forms (untyped constants, typed constants, variables, conversions incl. to the unexported gate type and to client look-alike types, call results, concatenations, rune/int/byte-slice sources, type-parameter inference under go 1.21 and go 1.16); conversions between every ordered pair of exported struct types by value and by pointer, from string and from a client look-alike struct; composite literals (zero, positional, keyed per field); field access directly and through embedding; the witness programs of findings D15 D20 D21 D30 D31 (run, output recorded); one closed-world case per exported function, type and variable. Each program is its own package; %d go build invocations. non-trivial = the compiler rejected the program (class starts with +reject) or a run program produced output", nparams, len(forms), c19Builds)
	return rule, true, map[string]int{"programs": len(build), "go_build_invocations": c19Builds, "not_generated": skipped, "forms": len(forms), "string_like_params": nparams}
}
