package main

import (
	"html"

	"github.com/google/safehtml"
)

// Correspondence-only streams for the shared models (model/Url.v, UrlProc.v, Html.v).
// Property files add their own streams with specification oracles on top.
func init() {
	b := func(x bool) string {
		if x {
			return "1"
		}
		return "0"
	}
	reg("m_is_safe_url", 1, func(c *caseWriter, in []string) {
		c.Case("m_is_safe_url", hx(in[0]), b(safehtml.VerifIsSafeURL(in[0])))
	})
	reg("m_query_escape", 1, func(c *caseWriter, in []string) {
		c.Case("m_query_escape", hx(in[0]), hx(safehtml.VerifQueryEscapeURL(in[0])))
	})
	reg("m_normalize", 1, func(c *caseWriter, in []string) {
		c.Case("m_normalize", hx(in[0]), hx(safehtml.VerifNormalizeURL(in[0])))
	})
	reg("m_tru_prefix", 1, func(c *caseWriter, in []string) {
		c.Case("m_tru_prefix", hx(in[0]), b(safehtml.VerifIsSafeTrustedResourceURLPrefix(in[0])))
	})
	reg("m_dotdot", 1, func(c *caseWriter, in []string) {
		c.Case("m_dotdot", hx(in[0]), b(safehtml.VerifURLContainsDoubleDotSegment(in[0])))
	})
	reg("m_html_escaped", 1, func(c *caseWriter, in []string) {
		c.Case("m_html_escaped", hx(in[0]), hx(safehtml.HTMLEscaped(in[0]).String()))
	})
	reg("m_html_unescape", 1, func(c *caseWriter, in []string) {
		c.Case("m_html_unescape", hx(in[0]), hx(html.UnescapeString(in[0])))
	})
	reg("m_coerce", 1, func(c *caseWriter, in []string) {
		c.Case("m_coerce", hx(in[0]), hx(safehtml.VerifCoerceToUTF8InterchangeValid(in[0])))
	})
}

// hostile strings used by several generators
var hostile = []string{
	"", "a", "<", ">", "\"", "'", "&", "&amp;", "&lt", "&#", "&#x", "&#39;", "</script>", "-->", "<!--", "\x00", "\xff", "\xc0\xaf",
	" ", "\t", "\n", "\f", "\r", "javascript:alert(1)", "JavaScript:alert(1)", "java\tscript:alert(1)", " javascript:alert(1)",
	"jav&#x61;script:alert(1)", "javascript&colon;alert(1)", "http://a/b?c=d#e", "//evil.com/x", "/path", "?q", "#f", "a:b", "%2e%2e", "..", "%", "%4", "%41",
	"İ", "K", "ſ", "﷐", "￾", "\U0001fffe", "\U0010ffff", " ", " ", "é", "\u0080", "\u009f", "\u007f",
}
