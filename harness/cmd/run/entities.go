package main

import (
	"go/ast"
	"go/parser"
	"go/token"
	"os/exec"
	"path/filepath"
	"sort"
	"strconv"
	"strings"
)

var entityNamesCache []string

// entityNames returns every key of html.entity / html.entity2 of the installed Go.
func entityNames() []string {
	if entityNamesCache != nil {
		return entityNamesCache
	}
	out, err := exec.Command("go", "env", "GOROOT").Output()
	if err != nil {
		panic(err)
	}
	f, err := parser.ParseFile(token.NewFileSet(), filepath.Join(strings.TrimSpace(string(out)), "src/html/entity.go"), nil, 0)
	if err != nil {
		panic(err)
	}
	ast.Inspect(f, func(n ast.Node) bool {
		if kv, ok := n.(*ast.KeyValueExpr); ok {
			if bl, ok := kv.Key.(*ast.BasicLit); ok && bl.Kind == token.STRING {
				s, _ := strconv.Unquote(bl.Value)
				entityNamesCache = append(entityNamesCache, s)
			}
		}
		return true
	})
	sort.Strings(entityNamesCache)
	return entityNamesCache
}

// unescapeProbes are inputs that exercise every branch of html.UnescapeString.
func unescapeProbes() []string {
	var l []string
	for _, n := range entityNames() {
		l = append(l, "&"+n, "&"+n+"x", "&"+n+"=", "a&"+n+"b")
		if !strings.HasSuffix(n, ";") {
			l = append(l, "&"+n+";")
		} else {
			l = append(l, "&"+strings.TrimSuffix(n, ";"))
		}
	}
	nums := []string{"0", "1", "9", "10", "34", "38", "39", "60", "62", "65", "128", "159", "160", "55296", "57343", "65533", "1114111", "1114112",
		"2147483647", "2147483648", "4294967296", "4294967361", "99999999999999999999"}
	hexs := []string{"0", "1", "a", "A", "22", "3c", "3C", "80", "9f", "D800", "dfff", "10ffff", "110000", "7fffffff", "80000000", "100000041", "ffffffffffffffffff41"}
	for _, n := range nums {
		l = append(l, "&#"+n+";", "&#"+n, "&#"+n+"x", "&#"+n+";;", "&#0"+n+";")
	}
	for _, h := range hexs {
		l = append(l, "&#x"+h+";", "&#X"+h+";", "&#x"+h, "&#x"+h+"g", "&#x"+h+" ")
	}
	l = append(l, "&", "&&", "&;", "&#", "&#;", "&#x", "&#x;", "&#X;", "& ", "&a", "&a;", "&amp", "&ampamp;", "&amp;amp;", "&am", "&notit;", "&notin;", "&not", "&nots",
		"&lt;&gt;", "&LT", "&Lt;", "x&", "x&#", "x&#1", "x&#12", "&#1;", "&#12", "&#x1", "&#x12", "&é", "&\xff;", "&#\xff;", "&#x\xff;", "&quot", "&QUOT;", "&apos;", "&Tab;", "&NewLine;", "&colon;", "&sol;", "&quest;", "&num;", "&nbsp", "&nbsp;x")
	return l
}
