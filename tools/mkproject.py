#!/usr/bin/env python3
"""Regenerates coq/_CoqProject (every .v under lib gen reviewed spec model proofs props)."""
import glob, os
ROOT = os.path.dirname(os.path.dirname(os.path.abspath(__file__)))
COQ = os.path.join(ROOT, "coq")
files = []
for d in ("lib", "gen", "reviewed", "spec", "model", "proofs", "props"):
    files += sorted(os.path.relpath(p, COQ) for p in glob.glob(os.path.join(COQ, d, "*.v")))
content = "-Q . V\n" + "\n".join(files) + "\n"
p = os.path.join(COQ, "_CoqProject")
if not os.path.exists(p) or open(p).read() != content:
    open(p, "w").write(content)
