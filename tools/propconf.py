"""Per-property configuration of the check driver: one JSON file per claimed property in tools/props/."""
import glob, json, os

ALLOWED_AXIOMS = set()  # the development is expected to be closed under the global context

TRUSTED_BASE_COMMON = [
    "Coq 8.16.1 kernel (coqc; coqchk in the thorough tier); vm_compute used for reflective side conditions; no native_compute",
    "translator harness/cmd/gen: regexp/syntax.Parse+Simplify of re.String() denotes what regexp executes; hook accessors return the package's real tables",
    "extraction: ExtrOcamlBasic only (bool, option, unit, list, prod, sumbool, sumor inductives; andb/orb inlined); OCaml 4.13.1; hand-written ocaml/*.ml driver",
    "correspondence harness (Go, -tags verif hook files are one-line forwards)",
]

_here = os.path.dirname(os.path.abspath(__file__))
PROPS = {}
for _f in sorted(glob.glob(os.path.join(_here, "props", "*.json"))):
    PROPS[os.path.basename(_f)[:-5]] = json.load(open(_f))
