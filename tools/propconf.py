"""Per-property configuration of the check driver."""

ALLOWED_AXIOMS = set()  # the development is expected to be closed under the global context

TRUSTED_BASE_COMMON = [
    "Coq 8.16.1 kernel (coqc; coqchk in the thorough tier); vm_compute used for reflective side conditions; no native_compute",
    "translator harness/cmd/gen: regexp/syntax.Parse+Simplify of re.String() denotes what regexp executes; hook accessors return the package's real tables",
    "extraction: ExtrOcamlBasic only (bool, option, unit, list, prod, sumbool, sumor inductives; andb/orb inlined); OCaml 4.13.1; hand-written ocaml/driver.ml",
    "correspondence harness (Go, -tags verif hook files are one-line forwards)",
]

PROPS = {
    "C18": {
        "proof_files": ["proofs/IdentFacts.v"],
        "trusted_base": ["model/Ident.v hand-written from identifier.go, tied by correspondence (streams ident_const, ident_prefix, rx)",
                         "lib/Utf8.v models Go's UTF-8 decoding (validated by the rx stream on malformed input)"],
        "proved_fragment": "all byte strings (unbounded)",
        "searched_fragment": "exhaustive small scope + random, see rule",
        "assumptions": ["Go's regexp matches the denotation of its parsed+simplified syntax tree"],
    },
}
