#!/bin/bash
# Evaluate one seeded change: tools/seedeval.sh <Cnn> <patch.diff> <demo file> [more checks...]
# 1. confirms in a scratch worktree (/tmp/evalrepo) that the change compiles, passes the existing
#    tests, and that the demo fails with it and passes without it;
# 2. runs ./check <Cnn> quick (and any further property ids given) against the scratch tree with
#    the change applied (VERIF_REPO), and prints the verdict lines.
export GOFLAGS=-mod=mod GOPROXY=off GOSUMDB=off GOTOOLCHAIN=local
P=$1; PATCH=$2; DEMO=$3; shift 3; EXTRA="$@"
R=${EVALREPO:-/tmp/evalrepo}
if [ ! -d $R ]; then git -C /repo worktree add -q --detach $R HEAD; fi
git -C $R checkout -q --detach $(git -C /repo rev-parse HEAD) 2>/dev/null
git -C $R checkout -q -- . ; git -C $R clean -fdq
pkgdir() { case "$(grep -m1 '^package ' $1 | awk '{print $2}')" in template|template_test) echo template;; safehtmlutil) echo internal/safehtmlutil;; *) echo .;; esac; }
D=$(pkgdir $DEMO)
cp $DEMO $R/$D/zz_seed_demo_test.go
( cd $R && go test -count=1 ./$D -run 'Seed|Demo' >$R.base.log 2>&1 ); BASE=$?
if ! git -C $R apply $PATCH; then echo "SEEDEVAL $P patch-does-not-apply"; exit 2; fi
( cd $R && go test -count=1 ./$D -run 'Seed|Demo' >$R.mut.log 2>&1 ); MUT=$?
rm -f $R/$D/zz_seed_demo_test.go
( cd $R && go build ./... >$R.build.log 2>&1 && go test -count=1 ./... >$R.test.log 2>&1 ); SUITE=$?
echo "SEEDEVAL $P demo_without=$BASE demo_with=$MUT suite_with=$SUITE"
cd /verif
for Q in $P $EXTRA; do
  VERIF_REPO=$R ./check $Q quick >$R.check.out 2>/dev/null; RC=$?
  OUT=$(grep -v "^KNOWN-FINDING\|^NOTE" $R.check.out)
  echo "SEEDEVAL $P check=$Q -> ${OUT:-exit$RC-no-violation-line}"
done
git -C $R checkout -q -- . ; git -C $R clean -fdq
