#!/bin/bash
# Development aid: build runner + driver for a pseudo-property (TMPL, SHARED, ...) or a real one and
# run only its correspondence/oracle streams, printing verdict counts.   usage: tools/corr.sh TMPL [tier]
set -e
P=$1; TIER=${2:-quick}
export GOFLAGS=-mod=mod GOPROXY=off GOSUMDB=off GOTOOLCHAIN=local
cd /verif
python3 - "$P" <<'PY'
import sys,os,fcntl
prop=sys.argv[1]
sys.argv=['x']
exec(open('/verif/check').read().split("def main():")[0])
os.makedirs(WORK, exist_ok=True)
lock=open(os.path.join(WORK,"lock"),"w"); fcntl.flock(lock,fcntl.LOCK_EX)
ok,out=build_harness(prop); assert ok, out
run_gen(); make_all(1800, prop)
ok,out=build_driver(prop)
if not ok: print(out[-3000:]); sys.exit(1)
PY
mkdir -p .work/$P
./harness/bin/run-$P -prop $P -tier $TIER -out .work/$P/cases.tsv -stats .work/$P/stats.json
./ocaml/build/$P/driver cases .work/$P/cases.tsv > .work/$P/v.tsv
cut -f2 .work/$P/v.tsv | sort | uniq -c
grep -v "	ok	" .work/$P/v.tsv | cut -f1 | cut -d'#' -f1 | sort | uniq -c
