"""Texts for MANIFEST.json."""
HOOK_COMMITS = ["394d8ea"]
NOT_APPLICABLE = {}
REGEX_NOTE = ("Trusted: Coq kernel; the translator (regexp/syntax parse tree -> Coq regex); the hand-written model tied by "
              "differential execution (extracted OCaml vs the Go implementation) on an exhaustive small scope + random stream; "
              "extraction (ExtrOcamlBasic). Modelled, not verified: Go's regexp engine and UTF-8 decoding.")
META = {
    "C18": {
        "text": "Theorems C18_const / C18_prefix hold for every byte string: whatever the model of the two constructors returns satisfies the byte-level recogniser [A-Za-z][-_A-Za-z0-9]* and equals prefix-hyphen-value. The two regular expressions are regenerated from the source on every run and tied to the specification by a verified language-inclusion checker evaluated by the kernel; the constructor bodies are tied by correspondence.",
        "design_ref": "DESIGN.md section 4, C18; section 3.2",
        "note": REGEX_NOTE,
        "technique": "Coq proof over regenerated regexes (verified derivative-based inclusion check) + differential correspondence",
    },
}
