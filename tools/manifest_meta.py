"""Texts for MANIFEST.json (per-property texts live in tools/props/Cnn.json under "manifest")."""
from propconf import PROPS
HOOK_COMMITS = ["394d8ea", "fe7c755", "5d523e8", "82876ac"]
NOT_APPLICABLE = {}
META = {k: v["manifest"] for k, v in PROPS.items() if "manifest" in v}
