#!/usr/bin/env python3
"""Store a confirmed seeded change: tools/seedstore.py <Cnn> <k> <srcdir(_seed)> "<needs>" "<result line(s)>" """
import json, os, shutil, sys
prop, k, src, needs, result = sys.argv[1:6]
d = os.path.join("/verif/seeded", "%s-%s" % (prop, k))
os.makedirs(d, exist_ok=True)
shutil.copyfile(os.path.join(src, "patch%s.diff" % k), os.path.join(d, "patch.diff"))
for cand in ("demo%s_test.go" % k,):
    if os.path.exists(os.path.join(src, cand)):
        shutil.copyfile(os.path.join(src, cand), os.path.join(d, "demo_test.go.txt"))
meta_src = os.path.join(src, "meta%s.txt" % k)
notes = open(meta_src).read() if os.path.exists(meta_src) else ""
json.dump({
    "property": prop,
    "breaks": notes[:1500],
    "needs_to_manifest": needs,
    "confirmed": "tools/seedeval.sh: in a scratch worktree of /repo the change compiles, the existing test suite passes with it, the demonstration (demo_test.go.txt, copied next to the package under test) fails with the change and passes without it",
    "check_result": result,
    "author": "fresh sub-agent given only the property text and a scratch worktree",
}, open(os.path.join(d, "meta.json"), "w"), indent=1)
print("stored", d)
