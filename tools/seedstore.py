#!/usr/bin/env python3
"""Store confirmed seeded changes: tools/seedstore.py  (reads .work/seedbatch.txt and /tmp/seed/Cnn/_seed)
A change is stored only when seedeval confirmed it: demo passes without, fails with, suite passes with."""
import json, os, re, shutil, sys
R = "/verif"
SR = os.environ.get("SEEDROOT", "/tmp/seed3")
lines = [l.rstrip("\n") for l in open(R + "/.work/seedbatch.txt")]
notes = json.load(open(R + "/tools/seednotes.json")) if os.path.exists(R + "/tools/seednotes.json") else {}
res = {}
for l in lines:
    m = re.match(r"(C\d\d)-((?:r\d-)?\d) SEEDEVAL C\d\d (.*)", l)
    if not m:
        continue
    key = "%s-%s" % (m.group(1), m.group(2))
    res.setdefault(key, []).append(m.group(3))

def section(text, pat):
    ls = text.split("\n")
    for i, l in enumerate(ls):
        if re.match(pat, l.strip(), re.I):
            out = []
            for x in ls[i + 1:]:
                if re.match(r"^(commands run|how to|demonstration|files|what|clause|why)\b", x.strip(), re.I) and out:
                    break
                out.append(x)
            return re.sub(r"\s+", " ", " ".join(out)).strip(" =-")[:900]
    return ""

for key, rs in sorted(res.items()):
    prop, k = key.split("-", 1)
    kk = k.split("-")[-1]          # the author's suffix (patch<kk>.diff)
    conf = [r for r in rs if r.startswith("demo_without")]
    chk = [r for r in rs if r.startswith("check=")]
    if not conf or "demo_without=0 demo_with=1 suite_with=0" not in conf[0]:
        print("NOT CONFIRMED", key, rs); continue
    root = SR
    mtag = re.match(r"r(\d)-", k)
    if mtag and os.path.isdir("/tmp/seed%s" % mtag.group(1)):
        root = "/tmp/seed%s" % mtag.group(1)      # round n lives under /tmp/seed<n>
    src = "%s/%s/_seed" % (root, prop)
    d = os.path.join(R, "seeded", key)
    os.makedirs(d, exist_ok=True)
    shutil.copyfile(os.path.join(src, "patch%s.diff" % kk), os.path.join(d, "patch.diff"))
    demo = os.path.join(src, "demo%s_test.go" % kk)
    if os.path.exists(demo):
        shutil.copyfile(demo, os.path.join(d, "demo_test.go.txt"))
    elif os.path.isdir(os.path.join(src, "demo%s" % kk)):
        dd = os.path.join(d, "demo")
        shutil.rmtree(dd, ignore_errors=True)
        shutil.copytree(os.path.join(src, "demo%s" % kk), dd, ignore=shutil.ignore_patterns(".out"))
        for root, _, files in os.walk(dd):          # keep Go sources inert inside /verif
            for f in files:
                if f.endswith(".go") or f in ("go.mod", "go.sum"):
                    os.rename(os.path.join(root, f), os.path.join(root, f + ".txt"))
    mt = os.path.join(src, "meta%s.txt" % kk)
    if not os.path.exists(mt):
        mt = os.path.join(src, "notes%s.txt" % kk)      # round 3: the authors' notes files
    text = open(mt).read() if os.path.exists(mt) else ""
    verdict = "; ".join(c.replace("check=", "./check ", 1) for c in chk)
    caught = "VIOLATION" in verdict
    meta = {
        "property": prop,
        "breaks": re.sub(r"\s+", " ", text)[:1200],
        "needs_to_manifest": section(text, r"what (it needs|is needed)") or "see breaks",
        "confirmed": "tools/seedeval.sh / tools/seedbatch.sh in a scratch worktree of /repo (/tmp/evalrepo): the change compiles (go build ./...), the existing test suite passes with it (go test ./...), the demonstration fails with the change and passes without it: " + conf[0],
        "check_result": verdict,
        "caught": caught,
        "concrete_replay": caught and "no-failing-input-found" not in verdict,
        "history": notes.get(key, ""),
        "author": "fresh sub-agent given only the property text, a scratch worktree of /repo under /tmp and (rounds 3-4) a hint naming code sites to stay away from; nothing from /verif",
    }
    json.dump(meta, open(os.path.join(d, "meta.json"), "w"), indent=1)
    print("stored", key, "caught" if caught else "MISSED", verdict[:120])
