#!/usr/bin/env python3
"""Regenerates MANIFEST.json from tools/propconf.py (claimed properties) and tools/manifest_meta.py."""
import json, os, subprocess, sys
ROOT = os.path.dirname(os.path.dirname(os.path.abspath(__file__)))
sys.path.insert(0, os.path.join(ROOT, "tools"))
from propconf import PROPS
from manifest_meta import META, NOT_APPLICABLE, HOOK_COMMITS

all_ids = [json.loads(l)["id"] for l in open(os.path.join(ROOT, "properties.jsonl"))]
# only properties listed in tools/ready.txt are claimed (the lead adds an id once its check is green and committed)
READY = set(open(os.path.join(ROOT, "tools", "ready.txt")).read().split())
PROPS = {k: v for k, v in PROPS.items() if k in READY}
checks = []
for pid in all_ids:
    if pid not in PROPS:
        continue
    m = META[pid]
    checks.append({
        "property_id": pid,
        "quick_cmd": "./check %s quick" % pid,
        "thorough_cmd": "./check %s thorough" % pid,
        "evidence_file": "evidence/%s.json" % pid,
        "replay_cmd_template": "./check --replay {path}",
        "engine": "coq",
        "level_claimed": {"category": "proof", "text": m["text"], "design_ref": m["design_ref"]},
        "level_note": m["note"],
        "technique": m["technique"],
    })
na = [{"property_id": pid, "reason": NOT_APPLICABLE.get(pid, "not claimed yet: the model and theorems for this property are still being built (see DESIGN.md section 8)")}
      for pid in all_ids if pid not in PROPS]
manifest = {
    "version": 1,
    "setup_cmd": "./check setup",
    "hooks": {
        "guard": "verif",
        "enable": "go build -tags verif (harness module with replace github.com/google/safehtml => /repo)",
        "baseline_off_cmd": "cd /repo && GOFLAGS=-mod=mod GOPROXY=off GOSUMDB=off GOTOOLCHAIN=local go test -vet=off -count=1 -timeout 25m ./...",
        "source_commits": HOOK_COMMITS,
        "add_only": True,
    },
    "engines": [{"name": "coq", "path": "coq/", "serves_properties": [c["property_id"] for c in checks],
                 "kind_free_text": "Coq 8.16.1 development (model, specifications, theorems) + translator (harness/cmd/gen) + extracted OCaml oracle (ocaml/) + Go correspondence harness (harness/cmd/run), driven by ./check"}],
    "checks": checks,
    "not_applicable": na,
    "notes": "All checks take a global lock (.work/lock); a check rebuilds the harness against /repo's working tree, regenerates coq/gen, re-checks the proofs, re-extracts the oracle when needed and runs correspondence + specification oracle on the implementation. See DESIGN.md.",
}
json.dump(manifest, open(os.path.join(ROOT, "MANIFEST.json"), "w"), indent=1)
print("MANIFEST.json: %d checks, %d not claimed" % (len(checks), len(na)))
