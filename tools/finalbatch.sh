#!/bin/bash
# tools/finalbatch.sh : final evaluation of the seeded changes of rounds 3 and 4 (worktrees /tmp/seed3, /tmp/seed4)
# against the current checks; results in .work/seedbatch.txt (consumed by tools/seedstore.py).  Round 4 results of
# the properties whose checks did not change after their last batch are taken from that batch.
cd /verif
rm -f .work/seedbatch.txt
SEEDROOT=/tmp/seed3 SEEDTAG=r3- tools/seedbatch.sh
sed -i '/^DONE$/d' .work/seedbatch.txt
SEEDROOT=/tmp/seed4 SEEDTAG=r4- tools/seedbatch.sh C01 C02 C05 C06 C09
sed -i '/^DONE$/d' .work/seedbatch.txt
grep -h "^C\(03\|04\|08\|11\|15\|07\|10\|19\)-r4-" .work/seedbatch4b.txt >> .work/seedbatch.txt
grep -h "^C\(12\|13\|14\|16\|17\|18\|20\)-r4-" .work/seedbatch4a.txt >> .work/seedbatch.txt
# changes filed under a property whose text does not cover them: also judged by the property that does
tools/seedeval.sh C09 /tmp/seed3/C09/_seed/patch1.diff /tmp/seed3/C09/_seed/demo1_test.go C07 2>&1 | grep "check=C07" | sed "s/^/C09-r3-1 /" >> .work/seedbatch.txt
tools/seedeval.sh C19 /tmp/seed3/C19/_seed/patch3.diff /tmp/seed3/C19/_seed/demo3_test.go C17 2>&1 | grep "check=C17" | sed "s/^/C19-r3-3 /" >> .work/seedbatch.txt
echo DONE >> .work/seedbatch.txt
