#!/bin/bash
# SEEDROOT=/tmp/seed2 SEEDTAG=r2- tools/seedbatch.sh [Cnn...] : evaluate every seeded change found under $SEEDROOT/<Cnn>/_seed
# against the property's quick check; one line per change in .work/seedbatch.txt
export GOFLAGS=-mod=mod GOPROXY=off GOSUMDB=off GOTOOLCHAIN=local
cd /verif
SR=${SEEDROOT:-/tmp/seed2}; TG=${SEEDTAG:-r2-}
PS=${@:-C01 C02 C03 C04 C05 C06 C07 C08 C09 C10 C11 C12 C13 C14 C15 C16 C17 C18 C19 C20}
for P in $PS; do
  for K in 1 2 3 4; do
    S=$SR/$P/_seed
    [ -f $S/patch$K.diff ] || continue
    if [ -f $S/demo${K}_test.go ]; then
      tools/seedeval.sh $P $S/patch$K.diff $S/demo${K}_test.go 2>&1 | grep SEEDEVAL | sed "s/^/$P-$TG$K /" >> .work/seedbatch.txt
    elif [ -d $S/demo$K ]; then
      # script demo: a client module with replace => the scratch tree
      R=/tmp/evalrepo
      [ -d $R ] || git -C /repo worktree add -q --detach $R HEAD
      git -C $R checkout -q -- . ; git -C $R clean -fdq; git -C $R checkout -q --detach $(git -C /repo rev-parse HEAD)
      if [ -f $S/demo$K/run.sh ]; then
        D=/tmp/evaldemo; rm -rf $D; cp -r $S/demo$K $D; sed -i "s#=> $SR/$P#=> $R#" $D/go.mod; sed -i "s#$SR/$P#$R#g" $D/run.sh
        RUN="sh $D/run.sh"
      else
        # a main package meant to be run inside the module: go run ./_seed/demo<k>
        D=$R/_seed/demo$K; mkdir -p $R/_seed; rm -rf $D; cp -r $S/demo$K $D
        RUN="cd $R && go run ./_seed/demo$K"
      fi
      ( eval $RUN ) >/tmp/evalrepo.base.log 2>&1; BASE=$?
      if ! git -C $R apply $S/patch$K.diff; then echo "$P-$TG$K SEEDEVAL $P patch-does-not-apply" >> .work/seedbatch.txt; continue; fi
      ( eval $RUN ) >/tmp/evalrepo.mut.log 2>&1; MUT=$?
      rm -rf $R/_seed
      ( cd $R && go build ./... >/tmp/evalrepo.build.log 2>&1 && go test -count=1 ./... >/tmp/evalrepo.test.log 2>&1 ); SUITE=$?
      echo "$P-$TG$K SEEDEVAL $P demo_without=$BASE demo_with=$MUT suite_with=$SUITE" >> .work/seedbatch.txt
      VERIF_REPO=$R ./check $P quick >/tmp/evalrepo.check.out 2>/dev/null; RC=$?
      OUT=$(grep -v "^KNOWN-FINDING\|^NOTE" /tmp/evalrepo.check.out)
      echo "$P-$TG$K SEEDEVAL $P check=$P -> ${OUT:-exit$RC-no-violation-line}" >> .work/seedbatch.txt
      git -C $R checkout -q -- . ; git -C $R clean -fdq; rm -rf $D
    fi
  done
done
echo DONE >> .work/seedbatch.txt
