#!/bin/bash
# tools/runall.sh [tier] : every property's check, one after another; summary in .work/runall.txt
cd /verif
T=${1:-quick}
: > .work/runall.txt
for P in C01 C02 C03 C04 C05 C06 C07 C08 C09 C10 C11 C12 C13 C14 C15 C16 C17 C18 C19 C20; do
  S=$(date +%s)
  ./check $P $T > .work/runall-$P.out 2>.work/runall-$P.err; RC=$?
  E=$(date +%s)
  echo "$P rc=$RC secs=$((E-S)) $(grep -c '^KNOWN-FINDING' .work/runall-$P.out) known; $(grep '^VIOLATION' .work/runall-$P.out | head -2 | tr '\n' ' ')" >> .work/runall.txt
done
echo DONE >> .work/runall.txt
